#!/usr/bin/env python3
"""Writes seeded/<id>/meta.json from notes.md, confirm.txt and result.json, and prints the catch table for DESIGN.md."""
import json, os, glob, re
HERE = os.path.dirname(os.path.dirname(os.path.abspath(__file__)))
rows = []
for d in sorted(glob.glob(os.path.join(HERE, "seeded", "*"))):
    name = os.path.basename(d)
    pid = name.split("-")[0]
    notes = open(os.path.join(d, "notes.md")).read() if os.path.exists(os.path.join(d, "notes.md")) else ""
    conf = dict(l.split("=", 1) for l in open(os.path.join(d, "confirm.txt")).read().splitlines() if "=" in l) if os.path.exists(os.path.join(d, "confirm.txt")) else {}
    res = json.load(open(os.path.join(d, "result.json"))) if os.path.exists(os.path.join(d, "result.json")) else {}
    first = [l.strip("-# ").strip() for l in notes.splitlines() if l.strip()][:1]
    needs = ""
    m = re.search(r"(?i)(needs?|what it needs|requires)[^\n]*:?([^\n]+(?:\n(?!\n)[^\n]+){0,3})", notes)
    if m:
        needs = " ".join(m.group(0).split())[:600]
    caught = sorted(c for c, r in res.items() if r.get("exit") == 1)
    special = {
        "C16-m1": "NOT a violation of C16 as stated: the change only makes the queue deliver an equal item it could have dropped (the marker is cleared "
                  "too early); the statement forbids losing anything else, it does not demand the drop. No check is expected to fire; kept for the record.",
        "C18-m1": "NOT APPLICABLE to the repaired tree: it relied on the unconditional first wait of EventDebouncer.run, which the F6 fix replaced by a "
                  "predicate loop; the original patch no longer applies and the re-based change does not break the property.",
        "C14-m2": "caught end-to-end (C02 probes / C03 justification), not by C14's generator oracle: the change is in the inotify re-keying, not in the generators",
        "C14-m3": "after the F7/F8 fixes this change no longer breaks the demo's rename scenario (the book-keeping is refreshed on IN_MOVED_TO); it still breaks "
                  "C02/C03 through directories that left the tree (same change as C03-m2 / C01-r2m3)",
    }
    meta = {
        "property": pid,
        "origin": "written by an independent sub-agent that was given only the property text and its own scratch worktree of /repo",
        "summary": first[0][:300] if first else "",
        "needs_to_manifest": needs,
        "confirmed_in_scratch_worktree": {
            "base_commit": conf.get("base_commit"), "demo_on_unchanged_tree_exit": conf.get("demo_on_pristine_exit"),
            "demo_with_change_exit": conf.get("demo_with_patch_exit"), "repository_tests_with_change": conf.get("pytest_tail"),
            "confirmed": conf.get("CONFIRMED"), "how": "tools/confirm_seed.sh (git worktree of /repo under /tmp, removed afterwards)"},
        "checks_run_against_it": {c: {"exit": r.get("exit"), "mechanisms": r.get("mechanisms"), "patch_applies": r.get("applies")} for c, r in res.items()},
        "caught_by": caught,
        "remark": special.get(name, ""),
        "how_run": "tools/try_seed.sh <patch> <ID> quick  (scratch worktree + VERIF_REPO; equivalent to git -C /repo apply; ./check; git -C /repo checkout -- .)",
    }
    json.dump(meta, open(os.path.join(d, "meta.json"), "w"), indent=1)
    rows.append((name, meta["summary"][:110], ",".join(caught) or "-", conf.get("CONFIRMED", "?")))
print("| seeded change | what it does | caught by (quick tier) | demo confirmed |")
print("|---|---|---|---|")
for r in rows:
    print("| " + " | ".join(r) + " |")
