#!/bin/sh
# usage: tools/try_revert.sh <fix-commit> <ID> [tier] -- reverts one fix commit in a scratch worktree and runs the check there:
# confirms that the check reports the violation again if the defect returns.
C=$1; ID=$2; TIER=${3:-quick}
WT=$(mktemp -d /tmp/wdv-rev-XXXXXX)
git -C /repo worktree add -q --detach "$WT" HEAD || exit 9
if ! git -C "$WT" revert -n "$C" >/dev/null 2>&1; then echo "REVERT CONFLICT"; git -C /repo worktree remove --force "$WT"; exit 8; fi
cd "$(dirname "$0")/.."
VERIF_REPO="$WT" ./check "$ID" --tier "$TIER" > "$WT/.log" 2>&1
RC=$?
grep -E "VIOLATION|INCONCLUSIVE|HELD|mechanism=" "$WT/.log" | cut -c1-330 | head -8
echo "exit=$RC  (revert $C, $ID $TIER)"
git -C /repo worktree remove --force "$WT"
