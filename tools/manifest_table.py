"""Single source of truth for MANIFEST.json (tools/gen_manifest.py renders it)."""

ENGINES = [
    {"name": "runner", "path": "wdverif/runner.py", "serves_properties": ["*"],
     "kind_free_text": "parent: fans batches to worker subprocesses, aggregates monitor counters, classifies violations "
                       "against known_findings.json by mechanism, writes evidence, exit 0/1/2(inconclusive)"},
    {"name": "monitors", "path": "wdverif/monitors.py", "serves_properties": ["*"],
     "kind_free_text": "always-on monitors: threading.excepthook ledger, thread/fd ledgers, hang classifier (stack sampling)"},
    {"name": "vfs", "path": "wdverif/env/vfs.py", "serves_properties": ["C09", "C10"],
     "kind_free_text": "dict-backed stat/listdir with call counter and fault plan"},
]

NOTES = (
    "Technique family: runtime monitoring. Every check executes the real watchdog code from /repo's working tree "
    "(PYTHONPATH=/repo/src, asserted in each worker) under generated/hostile workloads and decides with an oracle over "
    "what was observed. Exit 0 = held on everything observed, 1 = violation (VIOLATION line + replay file under out/), "
    "2 = inconclusive (a deciding monitor observed fewer events than its stated minimum, or workers were lost). "
    "VERIF_SEED, VERIF_TIER, VERIF_JOBS, VERIF_REPO are honoured."
)

CHECKS = []
NOT_APPLICABLE = []


def chk(id, engine, technique, text, note, category="exploration"):
    CHECKS.append({"id": id, "engine": engine, "technique": technique, "text": text, "note": note, "category": category})


chk(
    "C09", "wdverif/props/c09.py",
    "runtime oracle (diff laws) on every DirectorySnapshotDiff built over an enumerated + random VFS universe",
    "Exploration with a law oracle: every pair of the reduced small universe (thorough: complete, 41 canonical ref trees x "
    "all new trees with an inode pool of 4) plus random larger trees is run through the real DirectorySnapshot/"
    "DirectorySnapshotDiff and judged by the laws of the statement (set equalities keyed by inode, accounting equation, "
    "modified iff identity kept and mtime/size changed, kind lists, self-diff empty, mirror, ignore_device); random pairs include a root "
    "whose own identity changes while its old/new inode stays inside the tree; the subtraction and ContextManager entry points; and every "
    "diff the real PollingEmitter builds on the real disk during hostile histories (postcondition wrapper on DirectorySnapshotDiff.__init__); "
    "snapshots that went through pickle/copy; device change plus modifications under ignore_device; sockets / devices / FIFOs (never "
    "directories); the same inode number on two devices; a name that is not in Unicode NFC.",
    "Trusted: the oracle in wdverif/oracles/difflaws.py (written from the statement, reads only public accessors); "
    "the VFS feeding stat/listdir. Inode-number symmetry is assumed for the enumerated part only.",
)

chk(
    "C10", "wdverif/props/c10.py",
    "runtime reference-diff oracle per poll of the real PollingEmitter over a VFS + fault injection at every stat/listdir call position + mid-walk mutation",
    "Fault enumeration + exploration: every poll of the real PollingEmitter (direct and through PollingObserverVFS with its real "
    "emitter thread and dispatcher) is compared with a reference diff keyed by (ino,dev) computed from the VFS states; a failure "
    "(ENOENT/ENOTDIR/EACCES) is injected at every stat/listdir call position of each tree's walk; the tree is mutated at chosen call "
    "positions in mid-walk; root removal is judged for exactly one DirDeletedEvent and a stopped emitter; every second batch uses a "
    "lazily failing listdir (a generator, as a scandir-based listdir would be); stop() landing inside a walk must not change the baseline "
    "the in-flight poll is diffed against; relative and non-normalised watch roots; ELOOP/EIO on per-entry stat calls; thread mode "
    "judges what the emitter queued (the delivered stream only up to coalesced adjacent duplicates); a tree 300 and 1 100 levels "
    "deep (the latter is the recorded finding F33).",
    "Trusted: the VFS (POSIX-like lookup semantics), the reference diff in c10.py. Direct mode calls on_thread_start()/queue_events(0) "
    "from the harness thread; thread mode installs each scripted state atomically at the start of a walk.",
    category="fault_enumeration",
)

chk(
    "C16", "wdverif/props/c16.py",
    "sequential reference model over all short put/get sequences + linearizability checker over recorded concurrent histories (noise and directed line holds via sys.monitoring) + pairwise equality/hash law",
    "Exploration: (a) every put/get sequence up to length 6 (thorough 7) over 5 values against a sequential model, each put a fresh "
    "object so drops are observed by identity; (b) recorded histories of <=3 producers + 1 consumer on real threads checked for "
    "linearizability (Wing-Gong + memo) against 'a put may be dropped only if equal to the last accepted, still queued put', driven by "
    "sys.monitoring noise and by holding a thread at every executed line of every function the SkipRepeatsQueue class defines; producers "
    "also record qsize() observations (an op of the sequential model), so 'taken out' is observable before get() has returned; "
    "(c) equality/hash law over all pairs of 260 event objects (incl. str/bytes twins and paths that differ only by Unicode "
    "normalisation form); near-equal items back to back (equal hash, normalisation twins, synthetic twin) must all be delivered.",
    "Not dropping a duplicate is never a violation (statement forbids only loss). Trusted: the linearizability checker and the "
    "reference equality. Preemption only at line granularity; coordinated multi-preemption schedules are sampled, not enumerated.",
)

chk(
    "C17", "wdverif/props/c17.py",
    "offline trace checker over (op, result, virtual time) logs of the real DelayedQueue on a virtual clock with exact quiescence; directed line holds via sys.monitoring",
    "Exploration: all driver scripts up to length 4 (thorough 5) over {put delayed/undelayed, get, remove hit/miss, advance by "
    "{d-e,d,d+e,2d}, close} plus random scripts to 30 ops, executed against the real DelayedQueue whose time/threading module "
    "globals are a virtual clock and a waiter-counting Condition; checker: FIFO, exactly-once over get+remove, never early, "
    "undelayed head not delayed, close unblocks a parked get, later get returns the end marker. Holds park consumer/put/remove/"
    "close at every executed line while the other operations run. A third of the random scripts use ephemeral, value-identified "
    "elements (the rig keeps no reference, so a new element may get the address of one that has just gone; 'replace' = remove + put "
    "with nothing allocated in between); another third use 'twins' - elements that are all equal (==, same hash) but distinct objects, "
    "told apart by the checker through an identity tag - with directed scripts in which the head a consumer sleeps on is removed and an equal "
    "element takes its place; predicates that raise; a bulk case with 40 000 (thorough 300 000) elements waiting at once.",
    "Trusted: virtual clock + counting Condition (harness), offline checker. Liveness is judged logically (consumer parked in the "
    "condition with elements outstanding / after close), never by wall clock; a rig that cannot reach quiescence is inconclusive.",
)

chk(
    "C13", "wdverif/props/c13.py",
    "reference-map monitor: after every API call of enumerated sequences (failure injected at every emitter construction/start opportunity) the real observer is audited through public API and marker events",
    "Fault enumeration: every API call sequence up to length 3 (thorough: 4 strided) over 3 watch keys x 2 handlers x 7 call kinds, "
    "re-run once per emitter-construction / on_thread_start opportunity with a failure injected there, plus random sequences to 15 "
    "calls; after every call: observer.emitters vs reference key set, is_alive() vs started, marker event per key must reach exactly "
    "the reference handler set, exceptions must match the reference (KeyError no-ops, injected failure); the stop hook of the emitter "
    "being unscheduled is a fault opportunity too (the watch must be gone all the same); stop() may be repeated, with a directed "
    "stop/schedule/stop family; an emitter that ended by itself (as after its root was deleted) followed by schedule/unschedule; the same "
    "path re-scheduled with follow_symlink=True (an equal watch); a neighbour observer with one fixed registration that nothing the first "
    "observer is told may affect, audited after every call.",
    "Emitters are scripted (BaseObserver(ScriptedEmitter)). The reference encodes documented failure behaviour (see ASSUMPTIONS in "
    "the evidence). Single-threaded by design: the property is about call sequences.",
    category="fault_enumeration",
)

chk(
    "C14", "wdverif/props/c14.py",
    "runtime oracle on the two public generators over enumerated real directory trees whose names collide with the rewritten prefix",
    "Exploration: all 5187 trees (names {a,b,ab}, depth<=3, <=5 entries) x {absolute, relative} x {str, bytes} x 4 (src,dest) "
    "name pairs (thorough: complete; quick: strided) built as real directories below a base path that repeats the same names; "
    "generate_sub_moved_events / generate_sub_created_events output compared as a multiset with a reference from the harness's own "
    "scandir walk + os.path.join; parents before children; all synthetic; path type preserved; random trees also hold symbolic links "
    "(one descendant each, nothing behind them); a sub-directory that vanishes during the walk; a tree 1 100 levels deep. Third anchor (the watch-path map rewrite): directed and random rename / name re-use "
    "histories on a real recursive inotify observer, judged by probes in every directory and by replay.",
    "Trusted: the reference walk. An absent source ('' for the full emitter) may be str or bytes.",
)

chk(
    "C15", "wdverif/props/c15.py",
    "recording handler subclass + independent reference evaluator (pathlib / re) over the full product of a small alphabet; same comparison under two-thread dispatch with line noise",
    "Exploration: product of 12 event classes x 7 src x 5 dest x 12 include x 12 exclude lists x case_sensitive x ignore_directories "
    "for PatternMatchingEventHandler and RegexMatchingEventHandler (thorough: complete, quick: 1/12 strided), base handler on every "
    "class, filter_paths/match_any_paths on 6 path lists x 144 pattern pairs x 2; each dispatch is compared with a reference evaluator "
    "written from the statement; a shared handler instance is also driven from two threads under sys.monitoring noise; callbacks re-bound "
    "on the instance / class after earlier dispatches must be the ones called; two handlers with different rules on two threads; "
    "back-references in non-first regexes; paths not in normal form (trailing separator, '/.'); identically configured handlers on one watch.",
    "Trusted: the reference evaluator (PurePosixPath/PureWindowsPath.match, re.match; only non-empty paths are examined).",
)

chk(
    "C04", "wdverif/props/c04.py",
    "interval-logic trace oracle over logged API-call intervals, dispatch windows and handler entry stamps of concurrent stress trials; sys.monitoring noise and directed line holds",
    "Exploration of schedules: trials of BaseObserver over scripted emitters with uniquely identified events, 0-3 API threads and "
    "re-entrant calls; each (event, handler) pair whose registration is determined over the whole dispatch window is judged "
    "(must receive exactly once / must not receive), plus: nothing delivered twice, per-watch order, every queued event dispatched "
    "unless it is a legitimate coalescence, no handler called after a removal of it returned. Directed sweeps hold the dispatcher at "
    "every executed line of dispatch_events (partner: a mutating call aimed at the handler/watch being delivered), an API thread at "
    "every line of schedule/unschedule/remove_handler/_remove_emitter, and the emitter/dispatcher at every line of the queue's put/_get. "
    "Feeders also queue 'twin' events (same path, other class or synthetic flag: distinct events that must both arrive; coalescence is "
    "judged with a reference equality, not the library's __eq__); a wind-up phase races stop() against callbacks that schedule fresh "
    "watches (never-started emitters next to running ones), with allocator shuffling so that the emitter set's order varies.",
    "Trusted: logical stamps taken at the client boundary; queue get/task_done wrapped on the instance to stamp dispatch windows. "
    "Not exhaustive over interleavings: single directed preemptions at line granularity + noise + natural scheduling.",
)

chk(
    "C05", "wdverif/props/c05.py",
    "same trace oracle as C04, removal-biased workload: handler entry stamps against return stamps of removing calls; emitter liveness/production after unschedule returned",
    "Exploration of schedules: the C04 engine biased to removals (external and re-entrant unschedule/remove_handler_for_watch/"
    "unschedule_all/stop at every point of the stream, dispatcher held at each line of dispatch_events while the removing call runs and "
    "vice versa); a callback whose entry stamp is later than the return stamp of a call that removed it (no re-adding call started in "
    "between) is a violation, as is an emitter alive or queueing after unschedule returned.",
    "Trusted: one logical clock (itertools.count) for all stamps; scripted emitters.",
)

chk(
    "C01", "wdverif/props/c01.py",
    "replay oracle over the delivered event stream of generated, paced operation histories on the real kernel (plain / small reads / slow reader via sys.monitoring delays)",
    "Exploration: random operation histories (8-30 operations incl. nested bursts, rename chains, replace, move out, move in of "
    "trees; names {a,b,c}, depth<=3) that respect the directory pacing condition are executed on a scratch directory watched by a real "
    "InotifyObserver (recursive/non-recursive, normal/full emitter, str/bytes, absolute/relative/trailing-slash root); at every drain "
    "(sentinel event reached the handler) the created/deleted/moved events delivered so far are replayed onto the initial tree and "
    "compared with os.walk. Modes: plain, 300-byte reads (kernel batches split, cross-batch rename pairing), random delays at "
    "Inotify.read_events (operator far ahead of the reader).",
    "Trusted: replay semantics (DESIGN section 3/C01), the pacing tracker (literal reading of the condition), the sentinel drain. The "
    "kernel is the real one: sequences it does not produce here are not explored; IN_Q_OVERFLOW is kept from happening.",
)

chk(
    "C02", "wdverif/props/c02.py",
    "probe oracle: a probe file created in every existing directory at quiescent points of generated histories must be reported under exactly its real path",
    "Exploration: the C01 engine biased to directory building/reshaping plus a regression corpus (witnesses of F5/F7/F8); at the end "
    "and at random intermediate drains one probe per existing directory (every directory of the tree, as the quantifier demands) is "
    "created and must appear as a non-synthetic FileCreatedEvent with src_path equal to the root as given joined with the real "
    "relative name; non-recursive: probes below a child directory must never be reported. 15% of the histories ask for "
    "follow_symlink=True (no link exists: nothing may change); a long-lifetime script renames a directory as the n-th move of the "
    "watch for n around the powers of two up to 1024 and probes at once; arrival faults with ENOENT and ENOSPC; a stream that ends "
    "because a library thread died is a violation here too.",
    "Trusted: as C01. A directory that is watched with a mask lacking a bit would still answer a create probe (C11's subject).",
)

chk(
    "C03", "wdverif/props/c03.py",
    "justification oracle: every delivered event must belong to the allowed set of an operation issued since the last drain; single-step mode checks the full per-operation contract (primary exactly once, required >= 1, nothing else)",
    "Exploration: (a) single-step - every applicable operation in each of the 41 tree shapes over {a,b} x {recursive, non-recursive} x "
    "{normal, full emitter} (4040 cases; thorough: all, quick: 1/5) applied between two drains on the real kernel with the default 0.5 s "
    "pairing delay, judged against the contract table (create: created + parent modified; rename inside: one moved + both parents + one "
    "synthetic moved per descendant; move out: deleted; move in: created + synthetic created per descendant; ...); (b) soundness of "
    "every event of paced random histories in all C01 modes.",
    "Trusted: the contract table (inotify(7) semantics for the syscalls issued, confirmed on this kernel), the model of the tree kept by the rig.",
)

chk(
    "C07", "wdverif/props/c07.py",
    "threading.excepthook ledger + root-probe + root-deletion contract over unpaced hostile histories, errno injection at inotify_add_watch, directed hold of the emitter's self-stop against unschedule()",
    "Exploration + fault injection: unpaced histories (operations inside directories after they left the tree, immediate name re-use, "
    "bursts, replace chains) on InotifyObserver (plain/small reads/slow reader) and PollingObserver; ENOENT/ENOSPC/EACCES/ENOTDIR injected "
    "at the k-th inotify_add_watch after start-up; rmtree(root) at the end of ~30 % of the histories; emitter self-stop held at every "
    "executed line of InotifyEmitter.on_thread_stop while unschedule/unschedule_all/stop runs. Violations: any library thread dying "
    "with an exception, a file created directly in the root afterwards unreported, != 1 DirDeletedEvent(root), emitter alive after root "
    "loss, observer dead.",
    "Survival only: coverage and accuracy of events need pacing and are judged by C01-C03. Fault injection is at the module-global "
    "inotify_add_watch (other lookups fail for real through the races the history produces).",
)

chk(
    "C06", "wdverif/props/c06.py",
    "hang classifier (stack sampling of caller + library threads) and thread ledger over API call sequences, multi-thread/re-entrant call mixes and directed line holds against the real inotify/polling/scripted observers",
    "Exploration of call orders and schedules: random and (thorough) all sequences up to length 4 over {schedule(p1|p2|missing), "
    "unschedule, unschedule_all, rm(root), touch, start (+ retry after a failure), stop, join} per emitter kind, 2-3 threads issuing calls "
    "concurrently with re-entrant calls from callbacks, and a directed sweep: every library thread parked at every discovered line of "
    "InotifyBuffer.run / Inotify.read_events / Inotify.close / DelayedQueue.get,close / on_thread_stop / EventDispatcher.stop / "
    "dispatch_events ... while stop(), unschedule(), schedule(), root removal or an event proceeds; a third of the sequences use a "
    "0.05 s observer timeout and an unmatched move-out right before stop(); event floods of 12 000-60 000 queued events with a blocked "
    "handler and stop() from outside / from the callback. Violations: a call that does not return with all involved threads parked "
    "identically in 3 samples (deadlock), a library thread alive 50 ms after the final stop()+join() returned, a thread kept alive after "
    "a completed stop() until a further stop(), an undocumented exception; an emitter in the middle of a 6.5 s unit of work when "
    "stop()/unschedule() arrives (the call must wait for it); a fifth of the inotify sequences watch p2 with follow_symlink=True while p2 "
    "holds a link that resolves to p2 itself (self -> . or s0/up -> ..), so the root's own path is re-keyed to an alias in the "
    "book-keeping. A batch ends after a call that never finished (its thread would contaminate later cases).",
    "Liveness restated as bounded progress + logical stuck-state test; the watchdog alone firing is inconclusive. Real kernel, not a "
    "simulated one; virtual clock not used here (C08/C17 use it).",
)

chk(
    "C12", "wdverif/props/c12.py",
    "descriptor sanitizer (ledger behind inotify_c's os/select/inotify_* names: open->closed state machine, use-after-close, double close, leak at completed shutdown) + /proc/self/fd and thread deltas + errno injection at every kernel call of watch construction + directed line holds of reader vs closer; strace -f cross-check",
    "Fault enumeration + schedule sweeps on the real kernel: (a) random schedule/unschedule/start/stop cycles incl. failing calls; (b) a "
    "failure injected at inotify_init and at each inotify_add_watch of trees of 1-4 (thorough 6) directories x {ENOENT, ENOSPC, EMFILE, "
    "EACCES} x {idle, running observer} (complete); (c) reader/emitter/dispatcher/closer parked at every discovered line of the read and "
    "close paths while the other side runs (closer-role holds also with a concurrent schedule()); audited after every shutdown, every "
    "failing call, and once a stop() of a started observer has completed - before any further stop(); one long-lived observer over "
    "60 (thorough 400) schedule/event/unschedule rounds audited after each; RuntimeError injected at threading.Thread.start of the "
    "emitter / reader thread; start/stop cycles in a child process without stdin (inotify_init returns 0).",
    "Trusted: the ledger proxies (forward to the real kernel). strace is a cross-check only (one child process per run).",
    category="fault_enumeration",
)

chk(
    "C11", "wdverif/props/c11.py",
    "differential stream oracle: one history observed by an unfiltered and k filtered watches of the same observer; collapse(filter(unfiltered)) must equal collapse(filtered); logical quiescence drains (FIONREAD, parked poll, parked delay-queue consumer)",
    "Exploration: paced histories biased to move-out, move-in of trees, directories created after start with later activity inside, "
    "opens/closes, each observed by 1 unfiltered + 6 filtered watches (7 inotify instances x 16 workers stays below the per-user limit "
    "of 128); filters: the empty filter, every concrete class, FileSystemEvent, "
    "FileSystemMovedEvent, pairs, random subsets of 3-6; recursive/non-recursive; normal/full emitter; sequences compared after "
    "collapsing adjacent identical events; 30% of the cases add a directory that arrives together with a symbolic link to a directory "
    "outside the tree, followed by activity there (found F28).",
    "Trusted: the descriptor ledger's poll wrapper and ioctl(FIONREAD) for quiescence; default 0.5 s pairing delay; nested bursts are not "
    "generated here (their timing-dependent walk duplicates are C03's subject).",
)

chk(
    "C19", "wdverif/props/c19.py",
    "per-event path oracle (type, exact root prefix as given, byte-level name of a real entry) over histories with non-ASCII/undecodable names on inotify and polling observers",
    "Exploration: paced histories over names {a, e-acute, snowman, bytes ff fe '.txt', fd} with the root spelled as str / bytes / "
    "pathlib.Path, absolute / relative / './x' / 'y/../x' / trailing slash, recursive or not, inotify (normal, full, small reads) and polling; every "
    "non-empty src_path/dest_path of every delivered event (primary, synthetic, parent-directory) must have the scheduled path's type "
    "and be the root as given joined with the real relative name of an entry that existed, and must convert back with os.fsencode. "
    "Also: names that are string prefixes of each other; two workers (inotify, polling) whose interpreter has the filesystem encoding "
    "'ascii' (LC_ALL=C, PYTHONUTF8=0), where also valid UTF-8 names must come back surrogate-escaped; a followed symbolic link "
    "(follow_symlink=True, recursive) to a directory tree outside the root, with the link itself and the real directories holding it renamed "
    "and never-used file names created in every directory of the target after each rename - the only correct path is root / current link "
    "name / relative name, whatever the timing, because the reader resolves paths in kernel order.",
    "Trusted: the harness's record of names (model of the tree incl. everything that ever existed in the session).",
)

chk(
    "C08", "wdverif/props/c08.py",
    "offline trace checker over the consumer's (item, virtual time) log of the real InotifyBuffer/Inotify over a simulated kernel and a virtual clock; directed line holds (zero-duration and deadline-spanning)",
    "Exploration: every native sequence up to length 4 (thorough 5) over {F1,T1 (file rename), F2,T2 (directory rename, IN_ISDIR), X,Y,S(nameless),IGNORED} x every cut into read "
    "batches x gaps {0,d-e,d,d+e,2d} (quick: strided) + random longer sequences with large/small read sizes and an early close; the "
    "real Inotify.read_events/_parse_event_buffer/InotifyBuffer._group_events/DelayedQueue run over fake descriptors; checker: every "
    "native event exactly once (alone or in one pair, never both), kernel order, pair whenever the second half is released before "
    "first-half-insert + delay, unmatched first half alone and not before the delay. Holds park the reader / consumer at every "
    "executed line of _group_events, remove, put, run, get.",
    "Trusted: the simulated kernel (record packing per inotify(7), whole records per read) and the virtual clock; fidelity to the real "
    "kernel is cross-checked by the small-read modes of C01/C03 on real events.",
)

chk(
    "C18", "wdverif/props/c18.py",
    "batch-log and process-table trace oracles over the real EventDebouncer/AutoRestartTrick/ShellCommandTrick on a simulated process table; thread ledger; logical stuck test; directed line holds via sys.monitoring",
    "Exploration of schedules and short sequences: debouncer scripts (gaps around the interval, slow callback, early stop) judged for "
    "exactly-once, order, timing (2 ms tolerance) and thread exit; auto-restart scripts (events, waits, stop from another thread; "
    "children that die after k polls / ignore SIGINT / exit by themselves; debounce and restart_on_command_exit on/off) judged for "
    "<= 1 live child at every table transition, restart count on quiescent scripts, no live child / no spawn / no helper thread after "
    "stop() returned; shell-command scripts for non-overlap; holds park the debouncer / dispatcher / watcher thread at every executed "
    "line of EventDebouncer.run and AutoRestartTrick._stop_process/_restart_process/_start_process while stop() or the next event runs; "
    "stop() before / racing start() of the helper threads; the watcher thread of the n-th child failing to start; events never handed to "
    "a debouncer must not appear in its batches; debounce timing judged from the call stamp of handle_event() (sound lower bound); "
    "the debouncer parked inside threading.Condition.wait on the timeout path while an event arrives; callbacks that feed an event "
    "back into / stop their own debouncer; synthetic events among the triggering events; the shell-command trick served by two "
    "event sources at once; stop() landing before the debouncer's very first wait with no event at all (hold at every line on the way "
    "there); a quiescent one-event script with a long-lived child while the process watcher's thread is a hold target (one event = one restart; the watcher's own poll loop is instrumented but not yet a hold point).",
    "Processes are simulated (fake Popen, kill_process, fast clock behind tricks.subprocess/kill_process/time); real signals are not "
    "exercised (the upstream tests that do are skipped here for lack of PyYAML). Three genuine defects of AutoRestartTrick are recorded "
    "as known findings (F11, F21 and its consequence) and matched by mechanism.",
)

chk(
    "C20", "wdverif/props/c20.py",
    "replay / move-contract / scope oracles on the real WindowsApiEmitter and FSEventsEmitter fed native batches from documented-semantics simulators through import shims; exact round-trip oracle on the two binary decoders",
    "Exploration: paced histories executed on a real scratch directory are rendered into native notifications (Windows: "
    "FILE_NOTIFY_INFORMATION chains with padding and cuts, parent MODIFIED noise, optional cut between RENAMED_OLD/NEW; FSEvents: per-item "
    "events with real inodes, flag coalescing per (item, path), extra cuts) and fed to the real queue_events()/events_callback(); after "
    "every delivery the emitter's stream is replayed and compared with the disk; operations alone in a delivery are judged for the "
    "rename / move-in / move-out contract; non-recursive scope; no swallowed exception. Decoders: random buffers of 0-6 records, name "
    "lengths 0-255 (inotify) / 1-300 and 1000-9000 UTF-16 units incl. non-BMP and U+FEFF (Windows), paddings; a decoder exception is a "
    "violation. FSEvents 'reuse' regime: inodes freed by reported deletions may be re-used after that delivery; invariant at every "
    "delivery: the emitter's inode set holds no item whose last native record said Removed; bytes roots (FSEvents) and a base-class "
    "event filter (accepts everything) as configurations; an exception escaping queue_events()/events_callback() is a violation.",
    "Conditional on simulator fidelity (listed under assumptions in the evidence): neither OS is present. Seven genuine deviations "
    "are recorded as known findings (F13a-c, F14, F23-F25) and matched by mechanism; they cannot be confirmed on the real systems from here.",
)

_PENDING = "check not built yet in this round of work (planned in DESIGN.md section 3); not claimed until its monitor exists"
_built = {c["id"] for c in CHECKS}
for n in range(1, 21):
    pid = f"C{n:02d}"
    if pid not in _built:
        NOT_APPLICABLE.append({"property_id": pid, "reason": _PENDING})
