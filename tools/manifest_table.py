"""Single source of truth for MANIFEST.json (tools/gen_manifest.py renders it)."""

ENGINES = [
    {"name": "runner", "path": "wdverif/runner.py", "serves_properties": ["*"],
     "kind_free_text": "parent: fans batches to worker subprocesses, aggregates monitor counters, classifies violations "
                       "against known_findings.json by mechanism, writes evidence, exit 0/1/2(inconclusive)"},
    {"name": "monitors", "path": "wdverif/monitors.py", "serves_properties": ["*"],
     "kind_free_text": "always-on monitors: threading.excepthook ledger, thread/fd ledgers, hang classifier (stack sampling)"},
    {"name": "vfs", "path": "wdverif/env/vfs.py", "serves_properties": ["C09", "C10"],
     "kind_free_text": "dict-backed stat/listdir with call counter and fault plan"},
]

NOTES = (
    "Technique family: runtime monitoring. Every check executes the real watchdog code from /repo's working tree "
    "(PYTHONPATH=/repo/src, asserted in each worker) under generated/hostile workloads and decides with an oracle over "
    "what was observed. Exit 0 = held on everything observed, 1 = violation (VIOLATION line + replay file under out/), "
    "2 = inconclusive (a deciding monitor observed fewer events than its stated minimum, or workers were lost). "
    "VERIF_SEED, VERIF_TIER, VERIF_JOBS, VERIF_REPO are honoured."
)

CHECKS = []
NOT_APPLICABLE = []


def chk(id, engine, technique, text, note, category="exploration"):
    CHECKS.append({"id": id, "engine": engine, "technique": technique, "text": text, "note": note, "category": category})


chk(
    "C09", "wdverif/props/c09.py",
    "runtime oracle (diff laws) on every DirectorySnapshotDiff built over an enumerated + random VFS universe",
    "Exploration with a law oracle: every pair of the reduced small universe (thorough: complete, 41 canonical ref trees x "
    "all new trees with an inode pool of 4) plus random larger trees is run through the real DirectorySnapshot/"
    "DirectorySnapshotDiff and judged by the laws of the statement (set equalities keyed by inode, accounting equation, "
    "modified iff identity kept and mtime/size changed, kind lists, self-diff empty, mirror, ignore_device).",
    "Trusted: the oracle in wdverif/oracles/difflaws.py (written from the statement, reads only public accessors); "
    "the VFS feeding stat/listdir. Inode-number symmetry is assumed for the enumerated part only.",
)

_PENDING = "check not built yet in this round of work (planned in DESIGN.md section 3); not claimed until its monitor exists"
_built = {c["id"] for c in CHECKS}
for n in range(1, 21):
    pid = f"C{n:02d}"
    if pid not in _built:
        NOT_APPLICABLE.append({"property_id": pid, "reason": _PENDING})
