#!/bin/sh
# usage: tools/confirm_seed.sh <dir with patch.diff + demo.py>  -> writes <dir>/confirm.txt
# Confirms in a scratch worktree: demo passes on the pristine tree, fails with the patch, and the repository's own
# test suite still passes with the patch.
D=$(realpath "$1")
WT=$(mktemp -d /tmp/wdv-confirm-XXXXXX)
git -C /repo worktree add -q --detach "$WT" HEAD || exit 9
cd "$WT"
export PYTHONPATH="$WT/src" PYTHONDONTWRITEBYTECODE=1
timeout 300 /venv/bin/python "$D/demo.py" > "$WT/.demo0.log" 2>&1; R0=$?
git apply "$D/patch.diff" || { echo "patch does not apply" > "$D/confirm.txt"; git -C /repo worktree remove --force "$WT"; exit 8; }
timeout 300 /venv/bin/python "$D/demo.py" > "$WT/.demo1.log" 2>&1; R1=$?
timeout 1500 /venv/bin/python -m pytest -q -p no:cacheprovider --timeout=900 -x -q > "$WT/.pytest.log" 2>&1; RT=$?
{
  echo "base_commit=$(git -C /repo rev-parse --short HEAD)"
  echo "demo_on_pristine_exit=$R0"
  echo "demo_with_patch_exit=$R1"
  echo "pytest_with_patch_exit=$RT"
  echo "pytest_tail=$(tail -1 "$WT/.pytest.log")"
  echo "demo_with_patch_tail=$(tail -3 "$WT/.demo1.log" | tr '\n' '|' | cut -c1-400)"
  if [ $R0 -eq 0 ] && [ $R1 -ne 0 ] && [ $RT -eq 0 ]; then echo "CONFIRMED=yes"; else echo "CONFIRMED=no"; fi
} > "$D/confirm.txt"
cd /; git -C /repo worktree remove --force "$WT"
cat "$D/confirm.txt" | tail -1
