#!/bin/sh
# usage: tools/sweep.sh "<seeds>" [tier] [ids...]  -- runs every check for each seed on the unchanged tree; prints every non-held result
SEEDS=${1:-"1 2 3"}; TIER=${2:-quick}; shift; shift
IDS=${*:-"C01 C02 C03 C04 C05 C06 C07 C08 C09 C10 C11 C12 C13 C14 C15 C16 C17 C18 C19 C20"}
cd "$(dirname "$0")/.."
for s in $SEEDS; do for id in $IDS; do
  OUT=$(VERIF_SEED=$s ./check $id --tier $TIER 2>&1); RC=$?
  if [ $RC -ne 0 ]; then echo "=== seed=$s $id exit=$RC"; echo "$OUT" | grep -E "VIOLATION|INCONCLUSIVE|mechanism=" | cut -c1-600 | head -6; else echo "ok seed=$s $id $(echo "$OUT" | head -1 | cut -c1-90)"; fi
done; done
