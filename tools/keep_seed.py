#!/usr/bin/env python3
"""usage: tools/keep_seed.py <ID> <src dir (_out/mutK)> <slug> -- copies patch.diff, demo.py, notes.md into seeded/<ID>-<slug>/"""
import os, shutil, sys
pid, src, slug = sys.argv[1:4]
dst = os.path.join(os.path.dirname(os.path.dirname(os.path.abspath(__file__))), "seeded", f"{pid}-{slug}")
os.makedirs(dst, exist_ok=True)
for f in ("patch.diff", "demo.py", "notes.md"):
    if os.path.exists(os.path.join(src, f)):
        shutil.copy(os.path.join(src, f), os.path.join(dst, f))
print(dst)
