#!/bin/sh
# Offline setup: nothing is installed or built. Verifies the interpreter and creates scratch dirs.
set -e
cd "$(dirname "$0")/.."
/venv/bin/python - <<'PY'
import sys
assert sys.version_info >= (3, 12), sys.version
assert hasattr(sys, "monitoring"), "sys.monitoring missing"
PY
mkdir -p out evidence
chmod +x check
echo setup ok
