#!/bin/sh
# usage: tools/try_seed.sh <patch.diff> <ID> [tier]   -- applies the patch to a scratch worktree of /repo (never /repo
# itself), runs the check against it via VERIF_REPO, removes the worktree.  Prints the check's exit code.
set -u
PATCH=$(realpath "$1"); ID=$2; TIER=${3:-quick}
WT=$(mktemp -d /tmp/wdv-mut-XXXXXX)
git -C /repo worktree add -q --detach "$WT" HEAD || exit 9
if ! git -C "$WT" apply "$PATCH"; then echo "PATCH DOES NOT APPLY"; git -C /repo worktree remove --force "$WT"; exit 8; fi
cd "$(dirname "$0")/.."
VERIF_REPO="$WT" ./check "$ID" --tier "$TIER" > "$WT/.log" 2>&1
RC=$?
grep -E "VIOLATION|INCONCLUSIVE|KNOWN-FINDING|HELD|mechanism=" "$WT/.log" | head -12
echo "exit=$RC  ($ID $TIER $PATCH)"
git -C /repo worktree remove --force "$WT"
exit $RC
