#!/usr/bin/env python3
"""Runs, for every seeded change under seeded/, the quick check of its property (and of extra checks listed in
seeded/<id>/also.txt) against a scratch worktree carrying the patch; writes seeded/<id>/result.json."""
import json, os, re, subprocess, sys, glob
HERE = os.path.dirname(os.path.dirname(os.path.abspath(__file__)))
only = sys.argv[1:]
for d in sorted(glob.glob(os.path.join(HERE, "seeded", "*"))):
    name = os.path.basename(d)
    if only and not any(name.startswith(o) for o in only):
        continue
    pid = name.split("-")[0]
    checks = [pid]
    also = os.path.join(d, "also.txt")
    if os.path.exists(also):
        checks += open(also).read().split()
    res = {}
    for c in checks:
        p = subprocess.run([os.path.join(HERE, "tools", "try_seed.sh"), os.path.join(d, "patch.diff"), c, "quick"], capture_output=True, text=True)
        out = p.stdout
        mechs = sorted(set(re.findall(r"mechanism=(\S+)", out)))
        m = re.search(r"exit=(\d+)", out)
        res[c] = {"exit": int(m.group(1)) if m else None, "mechanisms": mechs, "applies": "PATCH DOES NOT APPLY" not in out}
    json.dump(res, open(os.path.join(d, "result.json"), "w"), indent=1)
    print(name, {c: (r["exit"], r["mechanisms"][:3]) for c, r in res.items()}, flush=True)
