#!/usr/bin/env python3
"""Regenerates /verif/MANIFEST.json from the table below (single source of truth)."""
import json, os, sys
HERE = os.path.dirname(os.path.dirname(os.path.abspath(__file__)))
sys.path.insert(0, HERE)
from tools.manifest_table import CHECKS, NOT_APPLICABLE, ENGINES, NOTES

BASE = "cd /repo && /venv/bin/python -m pytest -ra -q -p no:cacheprovider --timeout=900 --continue-on-collection-errors"
m = {
    "version": 1,
    "setup_cmd": "sh tools/setup.sh",
    "hooks": {
        "guard": "WATCHDOG_VERIF",
        "enable": "no source hooks: all instrumentation is harness-side (sys.monitoring callbacks, module-global proxies, "
                  "injectable stat/listdir); workers run with WATCHDOG_VERIF=1 and PYTHONPATH=/repo/src so the current working tree is what executes",
        "baseline_off_cmd": BASE,
        "source_commits": [],
        "add_only": True,
    },
    "engines": ENGINES,
    "checks": [],
    "notes": NOTES,
    "not_applicable": NOT_APPLICABLE,
}
for c in CHECKS:
    pid = c["id"]
    m["checks"].append({
        "property_id": pid,
        "quick_cmd": f"./check {pid} --tier quick",
        "thorough_cmd": f"./check {pid} --tier thorough",
        "evidence_file": f"evidence/{pid}.json",
        "replay_cmd_template": f"./check {pid} --replay {{path}}",
        "engine": c["engine"],
        "level_claimed": {"category": c.get("category", "exploration"), "text": c["text"], "design_ref": c.get("design_ref", f"DESIGN.md section 3/{pid}")},
        "level_note": c["note"],
        "technique": c["technique"],
    })
json.dump(m, open(os.path.join(HERE, "MANIFEST.json"), "w"), indent=1)
print("MANIFEST.json written:", len(m["checks"]), "checks,", len(m["not_applicable"]), "not_applicable")
