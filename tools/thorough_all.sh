#!/bin/sh
# runs every thorough tier once on the unchanged tree, logging verdict and time
cd "$(dirname "$0")/.."
for id in ${*:-C09 C10 C13 C14 C15 C16 C17 C20 C11 C19 C12 C18 C08 C01 C02 C03 C04 C05 C06 C07}; do
  T0=$(date +%s); OUT=$(./check $id --tier thorough 2>&1); RC=$?; T1=$(date +%s)
  echo "=== $id thorough exit=$RC wall=$((T1-T0))s"; echo "$OUT" | grep -A14 -E "VIOLATION|INCONCLUSIVE|mechanism=|HELD|evaluations=" | cut -c1-400 | head -40
done
