"""Worker subprocess: imports watchdog from $VERIF_REPO/src (asserted), runs one batch of one property."""

from __future__ import annotations

import importlib
import json
import os
import sys
import threading
import traceback


def main() -> int:
    pid, specf, outf = sys.argv[1:4]
    with open(specf) as fh:
        spec = json.load(fh)
    import watchdog

    root = os.path.realpath(os.environ.get("VERIF_REPO", "/repo"))
    wf = os.path.realpath(watchdog.__file__)
    if not wf.startswith(root + os.sep):
        print(f"watchdog imported from {wf}, expected under {root}", file=sys.stderr)
        return 3
    from wdverif import monitors

    monitors.install_global()
    mod = importlib.import_module(f"wdverif.props.{pid.lower()}")
    res = mod.run_batch(spec)
    res.setdefault("counters", {})
    tmp = outf + ".tmp"
    with open(tmp, "w") as fh:
        json.dump(res, fh, default=repr)
    os.replace(tmp, outf)
    sys.stdout.flush()
    # library threads are daemons; do not wait for stragglers of cases that were judged hung
    os._exit(0)


if __name__ == "__main__":
    try:
        rc = main()
    except BaseException:
        traceback.print_exc()
        os._exit(4)
    os._exit(rc or 0)
