"""E4 - API-history rig: BaseObserver over a scripted emitter, recording handlers, interval log, reference map."""

from __future__ import annotations

import itertools
import queue as stdqueue
import threading
import time

_CLOCK = itertools.count(1)  # logical stamps (GIL-atomic next())


def stamp() -> int:
    return next(_CLOCK)


class InjectedFailure(OSError):
    pass


class FaultPlan:
    """Counts fault opportunities (emitter construction, on_thread_start) and fails the chosen ordinal(s)."""

    def __init__(self, fail_at=()):
        self.fail_at = set(fail_at)
        self.n = 0
        self.fired: list[tuple[int, str, object]] = []
        self.log: list[tuple[int, str, object]] = []
        self.arm_stop = False  # while True an emitter's stop hook is a fault opportunity too

    def opportunity(self, kind, key):
        i = self.n
        self.n += 1
        self.log.append((i, kind, key))
        if i in self.fail_at:
            self.fired.append((i, kind, key))
            raise InjectedFailure(5, f"injected failure at {kind} #{i}")


def make_scripted_emitter(plan: FaultPlan, registry: list | None = None):
    from watchdog.observers.api import EventEmitter

    class ScriptedEmitter(EventEmitter):
        """Produces exactly the events pushed into its script queue; `queue_event` is the real one."""

        def __init__(self, event_queue, watch, *, timeout=1.0, event_filter=None):
            plan.opportunity("init", watch.key)
            super().__init__(event_queue, watch, timeout=timeout, event_filter=event_filter)
            self.script: stdqueue.Queue = stdqueue.Queue()
            self.produced: list = []
            if registry is not None:
                registry.append(self)

        def on_thread_start(self):
            plan.opportunity("on_thread_start", self.watch.key)

        def on_thread_stop(self):
            if plan.arm_stop:
                plan.opportunity("on_thread_stop", self.watch.key)

        def queue_events(self, timeout):
            try:
                ev = self.script.get(timeout=0.02)
            except stdqueue.Empty:
                return
            if self.should_keep_running():
                self.produced.append((stamp(), ev))
                self.queue_event(ev)

    return ScriptedEmitter


class RecHandler:
    """Recording handler (duck-typed FileSystemEventHandler: the observer only calls dispatch)."""

    def __init__(self, name, hook=None):
        self.name = name
        self.calls: list[tuple[int, object, str]] = []  # (stamp, event, thread name)
        self.hook = hook  # hook(handler, event) may perform re-entrant API calls
        self.lock = threading.Lock()

    def dispatch(self, event):
        with self.lock:
            self.calls.append((stamp(), event, threading.current_thread().name))
        if self.hook is not None:
            self.hook(self, event)

    def __repr__(self):
        return f"<H {self.name}>"


def drain(observer, timeout=10.0) -> bool:
    """Wait until the dispatcher has finished every queued entry (only meaningful while the observer runs)."""
    end = time.monotonic() + timeout
    q = observer.event_queue
    while time.monotonic() < end:
        if q.unfinished_tasks == 0 and q.qsize() == 0:
            return True
        if not observer.is_alive():
            return False
        time.sleep(0.0005)
    return False


# ------------------------------------------------------------------------------------------------ reference map
class RefModel:
    """Sequential reference written from the documented behaviour, including failures:
    a call that raises changes nothing; stop() is an unschedule_all(); add_handler registers even without emitter."""

    def __init__(self):
        self.handlers: dict = {}  # key -> set(handler names)
        self.emitters: dict = {}  # key -> alive flag
        self.state = "new"  # new | running | stopped

    def copy(self):
        m = RefModel()
        m.handlers = {k: set(v) for k, v in self.handlers.items()}
        m.emitters = dict(self.emitters)
        m.state = self.state
        return m
