"""E3 - filesystem-history rig on the real kernel: universe + model, operations with their event contracts,
pacing tracker, sentinel drains, observation through the public API, replay / probe / justification oracles."""

from __future__ import annotations

import errno
import os
import random
import shutil
import stat
import tempfile
import threading
import time

from wdverif import monitors

SENT = ".wdv"
PROBE = ".probe"


# =================================================================================================== model
class Model:
    """Harness's own tree: {relpath (relative to base, e.g. 'root/a/b') -> 'f' | 'd'}"""

    def __init__(self):
        self.t: dict[str, str] = {}

    def kids(self, p):
        pre = p + "/"
        return sorted(q for q in self.t if q.startswith(pre))

    def children(self, p):
        pre = p + "/"
        return sorted(q for q in self.t if q.startswith(pre) and "/" not in q[len(pre):])

    def parent(self, p):
        return p.rsplit("/", 1)[0]

    def dirs_under(self, p):
        return [q for q in [p] + self.kids(p) if self.t.get(q) == "d"]

    def move(self, s, d):
        sub = [s] + self.kids(s)
        for q in [d] + self.kids(d):
            self.t.pop(q, None)
        for q in sub:
            self.t[d + q[len(s):]] = self.t.pop(q)

    def remove(self, p):
        for q in [p] + self.kids(p):
            self.t.pop(q, None)


# =================================================================================================== universe
class Universe:
    NAMES = ("a", "b", "c")

    def __init__(self, r: random.Random, names=None, max_depth=3, root_name="root"):
        self.r = r
        self.names = tuple(names or self.NAMES)
        self.max_depth = max_depth
        self.base = tempfile.mkdtemp(prefix="wdv-fs-")
        self.root_name = root_name
        self.m = Model()
        self.m.t[root_name] = "d"
        self.m.t["out"] = "d"
        os.mkdir(self.abs(root_name))
        os.mkdir(self.abs("out"))
        with open(self.abs(root_name + "/" + SENT), "w"):
            pass
        self.n_out = 0
        self.oplog: list[dict] = []
        self.ever: set[str] = set()
        self.ever_kinds: dict[str, set] = {}
        self.record_inodes = False
        self.held: list = []  # [fd, operations left until it is closed]
        self.real_delete_below = None
        self.graveyard = None  # if set: deletions are renames into this directory, so inode numbers are never re-used
        self._grave_n = 0

    def abs(self, rel):
        return os.path.join(self.base, rel)

    def cleanup(self):
        self.tick_held(force=True)
        shutil.rmtree(self.base, ignore_errors=True)

    # ---- pre-population
    def populate(self, n_root=4, n_out=4):
        r = self.r
        for _ in range(n_root):
            self._rand_create(self.root_name)
        for _ in range(n_out):
            self._mk_out_item()

    def _rand_create(self, top):
        r = self.r
        dirs = [d for d in self.m.dirs_under(top) if d.count("/") - top.count("/") < self.max_depth - 1]
        par = r.choice(dirs)
        p = par + "/" + r.choice(self.names)
        if p in self.m.t:
            return
        if r.random() < 0.5:
            os.mkdir(self.abs(p))
            self.m.t[p] = "d"
        else:
            with open(self.abs(p), "w"):
                pass
            self.m.t[p] = "f"

    def _mk_out_item(self):
        """a file or a small tree under out/ with a unique top-level name"""
        r = self.r
        self.n_out += 1
        top = f"out/o{self.n_out}"
        if r.random() < 0.4:
            with open(self.abs(top), "w"):
                pass
            self.m.t[top] = "f"
        else:
            os.mkdir(self.abs(top))
            self.m.t[top] = "d"
            for _ in range(r.randint(0, 4)):
                dirs = [d for d in self.m.dirs_under(top) if d.count("/") < 2 + 1]
                par = r.choice(dirs)
                p = par + "/" + r.choice(self.names)
                if p in self.m.t:
                    continue
                if r.random() < 0.45 and p.count("/") < 3:
                    os.mkdir(self.abs(p))
                    self.m.t[p] = "d"
                else:
                    with open(self.abs(p), "w"):
                        pass
                    self.m.t[p] = "f"
        return top

    def tick_held(self, force=False):
        for h in list(self.held):
            h[1] -= 1
            if force or h[1] <= 0:
                try:
                    os.close(h[0])
                except OSError:
                    pass
                self.held.remove(h)

    def _really(self, path):
        """graveyard regime with an exception: entries below `real_delete_below` are really deleted"""
        return self.real_delete_below is not None and path.startswith(self.real_delete_below + os.sep)

    def _delete(self, path, isdir):
        if self.graveyard and not self._really(path):
            self._grave_n += 1
            os.rename(path, os.path.join(self.graveyard, f"g{self._grave_n}"))
        elif isdir:
            os.rmdir(path)
        else:
            os.unlink(path)

    # ---- ground truth
    def walk_root(self):
        out = {}
        top = self.abs(self.root_name)
        for dp, dns, fns in os.walk(top):
            for n in dns:
                out[os.path.relpath(os.path.join(dp, n), top)] = "d"
            for n in fns:
                rel = os.path.relpath(os.path.join(dp, n), top)
                if not os.path.basename(rel).startswith(SENT) and not os.path.basename(rel).startswith(PROBE):
                    out[rel] = "f"
        return out

    def model_root(self):
        pre = self.root_name + "/"
        return {p[len(pre):]: k for p, k in self.m.t.items() if p.startswith(pre)}

    # =============================================================================================== operations
    # every op returns a log record {op, args, structural: [hot names], touches: [paths], ...}
    def do(self, op):
        kind = op[0]
        rec = {"op": list(op), "pre_kind": {}, "desc": []}
        m = self.m
        A = self.abs
        if self.record_inodes:
            rec["ino_before"] = {}
            for q in ([op[1]] + (m.kids(op[1]) if kind == "rmtree" else [])) if isinstance(op[1], str) else []:
                try:
                    rec["ino_before"][q] = os.lstat(A(q)).st_ino
                except OSError:
                    pass
        if kind == "create":
            p = op[1]
            fd = os.open(A(p), os.O_CREAT | os.O_EXCL | os.O_WRONLY, 0o644)
            os.close(fd)
            m.t[p] = "f"
        elif kind == "write":
            p = op[1]
            fd = os.open(A(p), os.O_WRONLY | os.O_APPEND)
            os.write(fd, b"x")
            os.close(fd)
        elif kind == "chmod":
            p = op[1]
            st = os.stat(A(p))
            os.chmod(A(p), stat.S_IMODE(st.st_mode) ^ 0o010)
            rec["pre_kind"][p] = m.t[p]
        elif kind == "unlink":
            p = op[1]
            self._delete(A(p), False)
            m.t.pop(p)
        elif kind == "mkdir":
            p = op[1]
            os.mkdir(A(p))
            m.t[p] = "d"
        elif kind == "makedirs":
            p = op[1]
            parts = p.split("/")
            new = []
            for i in range(1, len(parts) + 1):
                q = "/".join(parts[:i])
                if q not in m.t:
                    new.append(q)
            os.makedirs(A(p))
            for q in new:
                m.t[q] = "d"
            rec["new"] = new
        elif kind == "burst":
            # nested creation burst issued back to back as ONE operation: directories and files inside them
            top, items = op[1], op[2]
            rec["new"] = []
            for rel, k in items:
                q = top if rel == "" else top + "/" + rel
                if k == "d":
                    os.mkdir(A(q))
                else:
                    fd = os.open(A(q), os.O_CREAT | os.O_EXCL | os.O_WRONLY, 0o644)
                    os.close(fd)
                m.t[q] = k
                rec["new"].append((q, k))
        elif kind == "rmdir":
            p = op[1]
            if len(op) > 2 and op[2] == "held" and not self.graveyard:
                # somebody still holds the directory open: the kernel reports IN_DELETE to the parent at once but delays the
                # directory's own IN_DELETE_SELF / IN_IGNORED until the last descriptor is closed (a few operations later)
                try:
                    self.held.append([os.open(A(p), os.O_RDONLY | os.O_DIRECTORY), 3])
                except OSError:
                    pass
            self._delete(A(p), True)
            m.t.pop(p)
        elif kind == "rmtree":
            p = op[1]
            sub = [p] + m.kids(p)
            rec["desc"] = [(q, m.t[q]) for q in sub]
            if self.graveyard and not self._really(A(p)):
                self._delete(A(p), m.t[p] == "d")
            else:
                for q in sorted(sub, key=lambda q: -q.count("/")):
                    if m.t[q] == "d":
                        os.rmdir(A(q))
                    else:
                        os.unlink(A(q))
            m.remove(p)
        elif kind in ("rename", "move_out", "move_in"):
            s, d = op[1], op[2]
            rec["pre_kind"][s] = m.t[s]
            rec["dest_existed"] = m.t.get(d)
            rec["desc"] = [(q[len(s) + 1:], m.t[q]) for q in m.kids(s)]
            if self.graveyard and m.t.get(d) is not None:
                # keep the replaced entry's inode allocated (see graveyard): hard link for a file, move away for an empty directory
                self._grave_n += 1
                if m.t[d] == "f":
                    os.link(A(d), os.path.join(self.graveyard, f"g{self._grave_n}"))
                else:
                    os.rename(A(d), os.path.join(self.graveyard, f"g{self._grave_n}"))
            os.rename(A(s), A(d))
            m.move(s, d)
        else:
            raise ValueError(kind)
        if self.record_inodes:
            rec["ino_after"] = {}
            targets = [op[2]] if kind in ("rename", "move_out", "move_in") else ([q for q, _ in rec.get("new", [])] if kind == "burst" else
                                                                                  (rec.get("new", []) if kind == "makedirs" else [op[1]]))
            for q in targets:
                try:
                    rec["ino_after"][q] = os.lstat(A(q)).st_ino
                except OSError:
                    pass
        self.oplog.append(rec)
        self.ever.update(self.m.t)
        for q, kk in self.m.t.items():
            self.ever_kinds.setdefault(q, set()).add(kk)
        return rec


# =================================================================================================== generator + pacing
class Pacer:
    """Literal implementation of the pacing condition of C01: after an operation that creates, renames, moves or removes
    a directory, a drain is required before another operation touches that directory's contents or re-uses one of its names."""

    def __init__(self):
        self.hot: set[str] = set()

    def needs_drain(self, touches_inside, uses_names) -> bool:
        for p in touches_inside:  # p = a path whose *parent chain* is being modified: op changes an entry at p
            q = p
            while "/" in q:
                q = q.rsplit("/", 1)[0]
                if q in self.hot:
                    return True
        return any(n in self.hot for n in uses_names)

    def mark(self, names):
        self.hot.update(names)

    def drained(self):
        self.hot.clear()


def op_footprint(u: Universe, op):
    """(touches_inside: entries created/removed/changed, uses_names: names that come into existence, structural: dir names made hot)"""
    m = u.m
    k = op[0]
    if k in ("create", "mkdir"):
        return [op[1]], [op[1]], ([op[1]] if k == "mkdir" else [])
    if k == "makedirs":
        parts = op[1].split("/")
        new = ["/".join(parts[:i]) for i in range(1, len(parts) + 1) if "/".join(parts[:i]) not in m.t]
        return new[:1], new, new
    if k == "burst":
        top, items = op[1], op[2]
        new = [top if rel == "" else top + "/" + rel for rel, _ in items]
        return [top], new, [q for q, (rel, kk) in zip(new, items) if kk == "d"]
    if k in ("write", "chmod"):
        return [op[1]], [], []
    if k == "unlink":
        return [op[1]], [], []
    if k == "rmdir":
        return [op[1]], [], [op[1]]
    if k == "rmtree":
        sub = [op[1]] + m.kids(op[1])
        isd = m.t[op[1]] == "d"
        return ([op[1]] + (m.kids(op[1]) if isd else [])), [], [q for q in sub if m.t[q] == "d"]
    if k in ("rename", "move_out", "move_in"):
        s, d = op[1], op[2]
        isd = m.t[s] == "d"
        # renaming a directory does not touch its contents; it changes an entry in par(s) and in par(d), and uses name d
        hot = [s, d] if isd else []
        if isd and m.t.get(d) == "d":
            hot.append(d)
        return [s, d], [d], hot
    raise ValueError(k)


class OpGen:
    def __init__(self, u: Universe, r: random.Random, bias=None, pacing=True, allow_out_ops=False):
        self.u, self.r = u, r
        self.bias = bias or {}
        self.pacing = pacing
        self.allow_out_ops = allow_out_ops

    def candidates(self):
        u, m, r = self.u, self.u.m, self.r
        root = u.root_name
        ents = [p for p in m.t if p.startswith(root + "/")]
        files = [p for p in ents if m.t[p] == "f"]
        dirs = [p for p in ents if m.t[p] == "d"]
        alld = [root] + dirs
        shallow = [d for d in alld if d.count("/") - root.count("/") < u.max_depth - 1]
        out_items = [p for p in m.t if p.startswith("out/") and p.count("/") == 1]

        def fresh(par):
            return par + "/" + r.choice(u.names)

        c = []
        w = self.bias
        for _ in range(3):
            par = r.choice(shallow) if shallow else root
            p = fresh(par)
            if p not in m.t:
                c.append((w.get("create", 3), ("create", p)))
                c.append((w.get("mkdir", 3), ("mkdir", p)))
                # nested burst
                q = p + "/" + r.choice(u.names)
                if q.count("/") - root.count("/") <= u.max_depth and r.random() < 0.5:
                    q2 = q + "/" + r.choice(u.names)
                    c.append((w.get("makedirs", 2), ("makedirs", q2 if q2.count("/") - root.count("/") <= u.max_depth and r.random() < 0.4 else q)))
        # nested creation burst with files inside (mkdir -p x/y; touch x/f x/y/g ... back to back)
        par = r.choice(shallow) if shallow else root
        top = fresh(par)
        if top not in m.t and top.count("/") - root.count("/") <= 1 and w.get("burst", 1.5) > 0:
            items = [("", "d")]
            dirs_in = [""]
            for _ in range(r.randint(2, 6)):
                d = r.choice(dirs_in)
                nm = r.choice(u.names)
                rel = nm if d == "" else d + "/" + nm
                if any(rel == x for x, _ in items):
                    continue
                depth = top.count("/") - root.count("/") + rel.count("/") + 1
                if depth > u.max_depth:
                    continue
                kk = "d" if (r.random() < 0.45 and depth < u.max_depth) else "f"
                items.append((rel, kk))
                if kk == "d":
                    dirs_in.append(rel)
            c.append((w.get("burst", 1.5), ("burst", top, items)))
        if files:
            f = r.choice(files)
            c.append((w.get("write", 2), ("write", f)))
            c.append((w.get("chmod", 1), ("chmod", f)))
            c.append((w.get("unlink", 2), ("unlink", f)))
        if dirs:
            d = r.choice(dirs)
            c.append((w.get("chmod", 1) * 0.5, ("chmod", d)))
            if not m.children(d):
                c.append((w.get("rmdir", 2), ("rmdir", d, "held") if r.random() < 0.35 else ("rmdir", d)))
            c.append((w.get("rmtree", 1), ("rmtree", d)))
        # renames inside
        for _ in range(3):
            if not ents:
                break
            s = r.choice(ents)
            depth_extra = max([q.count("/") for q in [s] + m.kids(s)]) - s.count("/")
            par = r.choice(alld)
            if par == s or par.startswith(s + "/"):
                continue
            d = fresh(par)
            if d == s or d.startswith(s + "/"):
                continue
            if d.count("/") - root.count("/") + depth_extra > u.max_depth:
                continue
            if d in m.t:
                if m.t[s] == "f" and m.t[d] == "f":
                    c.append((w.get("rename_replace", 1), ("rename", s, d)))
                elif m.t[s] == "d" and m.t[d] == "d" and not m.children(d) and not s.startswith(d + "/"):
                    c.append((w.get("rename_replace", 1), ("rename", s, d)))
                continue
            c.append((w.get("rename_dir" if m.t[s] == "d" else "rename_file", 4 if m.t[s] == "d" else 2), ("rename", s, d)))
        # move out / in
        if ents:
            s = r.choice(ents)
            u.n_out += 1
            c.append((w.get("move_out", 2), ("move_out", s, f"out/o{u.n_out}")))
        if out_items:
            s = r.choice(out_items)
            depth_extra = max([q.count("/") for q in [s] + m.kids(s)]) - s.count("/")
            par = r.choice(alld)
            d = fresh(par)
            if d not in m.t and d.count("/") - root.count("/") + depth_extra <= u.max_depth:
                c.append((w.get("move_in", 3), ("move_in", s, d)))
        if self.allow_out_ops:
            out_dirs = [p for p in m.t if p.startswith("out/") and m.t[p] == "d"]
            for _ in range(2):
                if out_dirs:
                    d = r.choice(out_dirs)
                    p = fresh(d)
                    if p not in m.t and p.count("/") < 5:
                        c.append((2, ("create", p)))
                        c.append((2, ("mkdir", p)))
                    kids = m.children(d)
                    if kids:
                        q = r.choice(kids)
                        if m.t[q] == "f":
                            c.append((2, ("write", q)))
                            c.append((2, ("unlink", q)))
                        else:
                            c.append((2, ("rmtree", q)))
                    if d.count("/") == 1:
                        c.append((1.5, ("rmtree", d)))
        return c

    def next_op(self):
        for _ in range(10):
            c = self.candidates()
            if c:
                tot = sum(x for x, _ in c)
                t = self.r.random() * tot
                for wgt, op in c:
                    t -= wgt
                    if t <= 0:
                        return op
        return None


# =================================================================================================== session
class Collector:
    """Handler scheduled on the root: records everything, counts sentinel events."""

    def __init__(self, sent_paths):
        self.events: list = []  # (seq, event)
        self.cv = threading.Condition()
        self.sent_paths = sent_paths
        self.sentinels = 0
        self.misspelled: list = []
        self.polling = False

    def dispatch(self, event):
        with self.cv:
            self.events.append(event)
            if self.polling:
                # created file sentinel; inode re-use may turn "unlink old + create new" into a moved event
                if event.event_type in ("created", "moved"):
                    p = event.dest_path if event.dest_path else event.src_path
                    bn = os.path.basename(os.fsdecode(p))
                    if bn.startswith(SENT + "-"):
                        self.sentinels = max(self.sentinels, int(bn[len(SENT) + 1:]))
                        self.cv.notify_all()
            elif event.src_path in self.sent_paths and type(event).__name__ == "FileModifiedEvent":
                self.sentinels += 1
                self.cv.notify_all()
            elif type(event).__name__ == "FileModifiedEvent" and os.path.basename(os.fsdecode(event.src_path)) == SENT:
                # the sentinel's own event, but not under the path it has (the root as scheduled + its name)
                self.misspelled.append(event.src_path)
                self.cv.notify_all()


class DrainFailed(Exception):
    def __init__(self, reason, detail=None):
        super().__init__(reason)
        self.reason = reason
        self.detail = detail


class Session:
    """One observer watching u.root (spelled as requested) with a Collector; sentinel drains."""

    def __init__(self, u: Universe, *, recursive=True, full=False, as_bytes=False, spelling="abs", observer="inotify",
                 delay=0.1, event_filter=None, poll_interval=0.02, follow_symlink=False):
        self.u = u
        self.recursive = recursive
        self.full = full
        self.kind = observer
        root_abs = u.abs(u.root_name)
        self.cwd0 = os.getcwd()
        try:
            if spelling == "rel":
                os.chdir(u.base)
                root = u.root_name
            elif spelling == "slash":
                root = root_abs + "/"
            elif spelling == "dot":
                os.chdir(u.base)
                root = "./" + u.root_name
            elif spelling == "dotdot":
                os.chdir(u.base)
                os.makedirs(os.path.join(u.base, "xdir"), exist_ok=True)
                root = "xdir/../" + u.root_name
            else:
                root = root_abs
            self.schedule_arg = None
            if spelling == "path":
                import pathlib

                self.schedule_arg = pathlib.Path(root_abs)
            elif spelling == "relpath":
                import pathlib

                os.chdir(u.base)
                root = u.root_name
                self.schedule_arg = pathlib.Path(root)
            self.root_spelled = os.fsencode(root) if as_bytes else root
            self.as_bytes = as_bytes
            sent = os.path.join(self.root_spelled, os.fsencode(SENT) if as_bytes else SENT)
            self.sent_path = sent
            self.col = Collector({sent})
            if observer == "inotify":
                from watchdog.observers.inotify import InotifyObserver
                from watchdog.observers.inotify_buffer import InotifyBuffer

                InotifyBuffer.delay = delay
                self.obs = InotifyObserver(generate_full_events=full)
            else:
                from watchdog.observers.polling import PollingObserver

                self.obs = PollingObserver(timeout=poll_interval)
            self.col.polling = observer != "inotify"
            self.exc_mark = monitors.exc_mark()
            self.watch = self.obs.schedule(self.col, self.schedule_arg if self.schedule_arg is not None else self.root_spelled,
                                           recursive=recursive, event_filter=event_filter, **({"follow_symlink": True} if follow_symlink else {}))
            self.obs.start()
            self.n_sent = 0
            self.initial = u.walk_root()
            self.consumed = 0
        except BaseException:
            # e.g. no inotify instance left: the caller retries or skips the case - never leave the process in a directory that is about to go
            os.chdir(self.cwd0)
            raise

    def rel_of(self, path):
        """event path -> path relative to the root ('' for the root itself); None if outside / malformed"""
        root = self.root_spelled
        if isinstance(path, bytes) != isinstance(root, bytes):
            return None
        sep = b"/" if isinstance(root, bytes) else "/"
        r = root.rstrip(sep) if len(root) > 1 else root
        if path == r or path == root:
            return ""
        for pre in (r + sep, root if root.endswith(sep) else r + sep):
            if path.startswith(pre):
                rest = path[len(pre):]
                return os.fsdecode(rest) if isinstance(rest, bytes) else rest
        return None

    def spell(self, rel):
        """relative path -> the exact path string an event must carry"""
        if rel == "":
            return self.root_spelled
        x = os.fsencode(rel) if self.as_bytes else rel
        return os.path.join(self.root_spelled, x)

    def drain(self, timeout=30.0):
        """Toggle the sentinel's mode bits and wait until that FileModifiedEvent reached the handler (pipeline is FIFO)."""
        self.n_sent += 1
        if self.kind != "inotify":
            # polling cannot see an attribute change: the sentinel is a freshly created file
            p = self.u.abs(self.u.root_name + "/" + f"{SENT}-{self.n_sent}")
            old = self.u.abs(self.u.root_name + "/" + f"{SENT}-{self.n_sent - 1}")
            if os.path.exists(old):
                os.unlink(old)
            with open(p, "w"):
                pass
        else:
            p = self.u.abs(self.u.root_name + "/" + SENT)
            st = os.stat(p)
            os.chmod(p, stat.S_IMODE(st.st_mode) ^ 0o100)
        end = time.monotonic() + timeout
        with self.col.cv:
            while self.col.sentinels < self.n_sent:
                rem = end - time.monotonic()
                if rem <= 0:
                    break
                self.col.cv.wait(min(rem, 0.5))
                if self.col.sentinels < self.n_sent and monitors.exc_since(self.exc_mark):
                    break
                if self.col.sentinels < self.n_sent and self.col.misspelled:
                    break
            ok = self.col.sentinels >= self.n_sent
        if not ok and self.col.misspelled:
            raise DrainFailed("sentinel-misspelled", {"got": repr(self.col.misspelled[0]), "want": repr(self.sent_path)})
        if not ok:
            recs = [x for x in monitors.exc_since(self.exc_mark)]
            if recs:
                raise DrainFailed("library-thread-died", recs)
            raise DrainFailed("stalled", None)

    def take(self):
        """events since the last take, sentinel events removed"""
        with self.col.cv:
            evs = self.col.events[self.consumed:]
            self.consumed = len(self.col.events)
        return [e for e in evs if not (e.src_path == self.sent_path or os.path.basename(os.fsdecode(e.src_path)).startswith(SENT + "-")
                                       or (e.dest_path and os.path.basename(os.fsdecode(e.dest_path)).startswith(SENT + "-")))]

    def close(self):
        try:
            self.obs.stop()
            self.obs.join(10)
        finally:
            os.chdir(self.cwd0)


# =================================================================================================== oracles
def ev_desc(e):
    return (type(e).__name__, e.src_path, e.dest_path, e.is_synthetic)


def replay(tree: dict, events, sess: Session):
    """C01 replay semantics (see DESIGN section 3/C01).  tree: {rel -> kind}; mutated in place.  Returns list of notes."""
    notes = []

    def rm(p):
        for q in [q for q in tree if q == p or q.startswith(p + "/")]:
            del tree[q]

    for e in events:
        name = type(e).__name__
        kind = "d" if e.is_directory else "f"
        et = e.event_type
        if et not in ("created", "deleted", "moved"):
            continue
        src = sess.rel_of(e.src_path) if e.src_path else None
        dst = sess.rel_of(e.dest_path) if e.dest_path else None
        if et == "created":
            if src is None or src == "":
                notes.append(f"created event with path outside the root: {e!r}")
                continue
            if tree.get(src) != kind:
                rm(src)
            tree[src] = kind
        elif et == "deleted":
            if src is None:
                notes.append(f"deleted event with path outside the root: {e!r}")
                continue
            if src == "":
                continue
            rm(src)
        else:
            if e.src_path and e.dest_path:
                if src is None or dst is None:
                    notes.append(f"moved event with a path outside the root: {e!r}")
                    continue
                if src in tree:
                    sub = [q for q in tree if q == src or q.startswith(src + "/")]
                    moved = {dst + q[len(src):]: tree[q] for q in sub}
                    for q in sub:
                        del tree[q]
                    rm(dst)
                    tree.update(moved)
                elif dst in tree:
                    pass
                else:
                    tree[dst] = kind
            elif e.dest_path:  # full emitter: moved in
                if dst is None:
                    continue
                if tree.get(dst) != kind:
                    rm(dst)
                tree[dst] = kind
            elif e.src_path:  # full emitter: moved out
                if src:
                    rm(src)
    return notes


def is_probe_event(e):
    for p in (e.src_path, e.dest_path):
        if p:
            b = os.path.basename(os.fsdecode(p))
            if b.startswith(PROBE):
                return True
    return False
