"""E1 - schedule control from outside the code under test, via sys.monitoring (3.12).

LINE / PY_START / PY_RETURN events are enabled *locally* on chosen code objects only.  The callback runs in the
executing thread and can
  * record which (qualname, line) points each thread role executed (line discovery),
  * inject noise (sleep(0) / short sleeps with a per-thread PRNG),
  * hold the thread at a chosen point until the driver releases it (directed single-preemption schedules),
  * raise (failpoints).
Nothing in /repo is edited.
"""

from __future__ import annotations

import random
import sys
import threading
import time
import types

mon = sys.monitoring
TOOL = 3
E = mon.events


def code_objects_of(obj) -> list[types.CodeType]:
    """All code objects of a function / class / method (including nested functions, lambdas, comprehensions)."""
    out: list[types.CodeType] = []
    seen = set()

    def add_code(c: types.CodeType):
        if id(c) in seen:
            return
        seen.add(id(c))
        out.append(c)
        for k in c.co_consts:
            if isinstance(k, types.CodeType):
                add_code(k)

    def visit(o):
        if isinstance(o, types.CodeType):
            add_code(o)
        elif isinstance(o, (staticmethod, classmethod)):
            visit(o.__func__)
        elif isinstance(o, property):
            for f in (o.fget, o.fset, o.fdel):
                if f is not None:
                    visit(f)
        elif isinstance(o, types.FunctionType):
            add_code(o.__code__)
        elif isinstance(o, types.MethodType):
            visit(o.__func__)
        elif isinstance(o, type):
            for v in vars(o).values():
                if isinstance(v, (types.FunctionType, staticmethod, classmethod, property)):
                    visit(v)
                elif isinstance(v, type) and v.__module__ == o.__module__ and v.__qualname__.startswith(o.__qualname__ + "."):
                    visit(v)

    visit(obj)
    return out


def default_role(t: threading.Thread) -> str:
    n = type(t).__name__
    if n in ("Thread", "_MainThread", "_DummyThread"):
        return t.name
    return n


class Hold:
    def __init__(self, role, qualname, line, nth=1, timeout=10.0, when=None):
        self.role = role  # str or None (= any thread)
        self.qualname = qualname
        self.line = line  # int, or "START" / "RETURN"
        self.nth = nth
        self.timeout = timeout
        self.when = when  # optional predicate() evaluated in the arriving thread
        self.reached = threading.Event()
        self._release = threading.Event()
        self.arrivals = 0
        self.timed_out = False
        self.done = False
        self.thread = None

    def release(self):
        self._release.set()

    def wait_reached(self, timeout):
        return self.reached.wait(timeout)


class Instr:
    def __init__(self, role_of=default_role, seed=0):
        self.role_of = role_of
        self.seed = seed
        self.codes: dict[types.CodeType, str] = {}
        self.points: dict[tuple[str, str, object], int] = {}  # (role, qualname, line) -> hits   (discovery)
        self.discover = False
        self.noise_p = 0.0
        self.noise_max_sleep = 0.0
        self.noise_roles = None
        self.holds: list[Hold] = []
        self.failpoints: dict[tuple[str, object], list] = {}
        self._tl = threading.local()
        self._lock = threading.Lock()
        self.trace: list | None = None  # schedule signature: (role, qualname, START/RETURN)
        self.active = False
        self.noise_events = 0

    # ---- set-up
    def watch(self, *objs, lines=True):
        for o in objs:
            for c in code_objects_of(o):
                self.codes[c] = c.co_qualname

    def start(self):
        mon.use_tool_id(TOOL, "wdverif")
        mon.register_callback(TOOL, E.LINE, self._on_line)
        mon.register_callback(TOOL, E.PY_START, self._on_start)
        mon.register_callback(TOOL, E.PY_RETURN, self._on_return)
        for c in self.codes:
            mon.set_local_events(TOOL, c, E.LINE | E.PY_START | E.PY_RETURN)
        self.active = True
        return self

    def stop(self):
        if not self.active:
            return
        self.active = False
        for h in self.holds:
            h.release()
        for c in self.codes:
            try:
                mon.set_local_events(TOOL, c, 0)
            except Exception:  # noqa: BLE001
                pass
        for ev in (E.LINE, E.PY_START, E.PY_RETURN):
            mon.register_callback(TOOL, ev, None)
        mon.free_tool_id(TOOL)

    def __enter__(self):
        return self.start()

    def __exit__(self, *a):
        self.stop()

    # ---- plans
    def set_noise(self, p, max_sleep=0.0, roles=None):
        self.noise_p = p
        self.noise_max_sleep = max_sleep
        self.noise_roles = roles

    def add_hold(self, hold: Hold) -> Hold:
        with self._lock:
            self.holds.append(hold)
        return hold

    def clear_holds(self):
        with self._lock:
            for h in self.holds:
                h.release()
            self.holds = []

    def add_failpoint(self, qualname, line, exc_factory, nth=1):
        self.failpoints[(qualname, line)] = [exc_factory, nth, 0]

    # ---- callbacks
    def _rng(self):
        r = getattr(self._tl, "rng", None)
        if r is None:
            r = self._tl.rng = random.Random(hash((self.seed, threading.current_thread().name)) & 0xFFFFFFFF)
        return r

    def _point(self, code, where):
        if getattr(self._tl, "busy", False):
            return
        self._tl.busy = True
        try:
            qn = self.codes.get(code)
            if qn is None:
                return
            role = None
            if self.discover or self.holds or self.noise_roles is not None or self.trace is not None:
                role = self.role_of(threading.current_thread())
            if self.discover:
                k = (role, qn, where)
                self.points[k] = self.points.get(k, 0) + 1
            if self.trace is not None and where in ("START", "RETURN"):
                self.trace.append((role, qn, where))
            if self.holds:
                for h in self.holds:
                    if h.done or h.qualname != qn or h.line != where:
                        continue
                    if h.role is not None and h.role != role:
                        continue
                    if h.when is not None and not h.when():
                        continue
                    with self._lock:
                        if h.done:
                            continue
                        h.arrivals += 1
                        if h.arrivals != h.nth:
                            continue
                        h.done = True
                    h.thread = threading.current_thread()
                    h.reached.set()
                    if not h._release.wait(h.timeout):
                        h.timed_out = True
            if self.failpoints:
                fp = self.failpoints.get((qn, where))
                if fp is not None:
                    fp[2] += 1
                    if fp[2] == fp[1]:
                        raise fp[0]()
            if self.noise_p and (self.noise_roles is None or role in self.noise_roles):
                r = self._rng()
                if r.random() < self.noise_p:
                    self.noise_events += 1
                    if self.noise_max_sleep and r.random() < 0.5:
                        time.sleep(r.random() * self.noise_max_sleep)
                    else:
                        time.sleep(0)
        finally:
            self._tl.busy = False

    def _on_line(self, code, line):
        self._point(code, line)

    def _on_start(self, code, offset):
        self._point(code, "START")

    def _on_return(self, code, offset, retval):
        self._point(code, "RETURN")

    # ---- results
    def discovered(self, role=None, qualname=None):
        return sorted(
            (k for k in self.points if (role is None or k[0] == role) and (qualname is None or k[1] == qualname)),
            key=lambda k: (k[0] or "", k[1], str(k[2])),
        )

    def signature(self):
        import hashlib

        if self.trace is None:
            return None
        return hashlib.sha1(repr(self.trace).encode()).hexdigest()[:12]


def run_partner(hold: Hold, partner, reach_timeout=5.0, settle=0.15, finish_timeout=10.0):
    """Directed single preemption: wait until `hold` is reached, run `partner` to completion or until it has made no
    progress for `settle` seconds (it is then blocked on the held thread: that *is* the schedule), release the hold.
    Returns dict(reached, partner_done_before_release, partner_result, partner_thread)."""
    out = {"reached": False, "partner_done_before_release": False, "partner": None, "partner_hung": False}
    if not hold.wait_reached(reach_timeout):
        hold.release()
        return out
    out["reached"] = True
    box = {}

    def run():
        try:
            box["v"] = partner()
            box["s"] = "ok"
        except BaseException as e:  # noqa: BLE001
            box["v"] = e
            box["s"] = "raised"

    t = threading.Thread(target=run, name="wdv-partner", daemon=True)
    t.start()
    t.join(settle)
    out["partner_done_before_release"] = not t.is_alive()
    hold.release()
    t.join(finish_timeout)
    out["partner_hung"] = t.is_alive()
    out["partner"] = (box.get("s"), box.get("v"))
    out["partner_thread"] = t
    return out
