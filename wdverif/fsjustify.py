"""C03 oracle: per-operation event contracts (P = primary, exactly once; R = required, >= 1; A = additionally allowed)
and the justification of every delivered event by the operations issued since the previous drain.

Abstract event = (class name, src rel, dest rel, is_synthetic) with paths relative to the watched root ('' = the root
itself, None = absent).  The table is the one of DESIGN section 3/C03 (inotify(7) semantics of the syscalls the rig issues).
"""

from __future__ import annotations


def _rel(p, root):
    """'root/a/b' -> 'a/b'; the root -> ''; outside -> None"""
    if p == root:
        return ""
    if p.startswith(root + "/"):
        return p[len(root) + 1:]
    return None


def _par(rel):
    return rel.rsplit("/", 1)[0] if "/" in rel else ""


def E(cls, src, dst=None, syn=False):
    return (cls, src, dst, syn)


def K(kind, what):
    return ("Dir" if kind == "d" else "File") + what


class Contract:
    def __init__(self):
        self.P: dict = {}  # event -> max count (min is 1)
        self.R: set = set()
        self.A: set = set()

    def allowed(self):
        return set(self.P) | self.R | self.A


def contract(rec, root, recursive, full) -> Contract:
    """Event contract of one executed operation (rec = Universe.do() record)."""
    c = Contract()
    op = rec["op"]
    k = op[0]

    def vis(rel):
        """is an entry at this relative path inside the watch's scope?"""
        return rel is not None and rel != "" and (recursive or "/" not in rel)

    if k == "create":
        p = _rel(op[1], root)
        if vis(p):
            c.P[E("FileCreatedEvent", p)] = 1
            c.R.add(E("DirModifiedEvent", _par(p)))
            c.A |= {E("FileOpenedEvent", p), E("FileClosedEvent", p)}
    elif k == "write":
        p = _rel(op[1], root)
        if vis(p):
            c.P[E("FileModifiedEvent", p)] = 1
            c.R.add(E("FileClosedEvent", p))
            c.A |= {E("FileOpenedEvent", p), E("DirModifiedEvent", _par(p))}
    elif k == "chmod":
        p = _rel(op[1], root)
        if vis(p):
            kind = rec["pre_kind"][op[1]]
            c.P[E(K(kind, "ModifiedEvent"), p)] = 2 if kind == "d" else 1
    elif k == "unlink":
        p = _rel(op[1], root)
        if vis(p):
            c.P[E("FileDeletedEvent", p)] = 1
            c.R.add(E("DirModifiedEvent", _par(p)))
    elif k == "mkdir":
        p = _rel(op[1], root)
        if vis(p):
            c.P[E("DirCreatedEvent", p)] = 1
            c.R.add(E("DirModifiedEvent", _par(p)))
    elif k == "makedirs":
        for i, q in enumerate(rec["new"]):
            p = _rel(q, root)
            if vis(p):
                # the kernel event plus one walk-after-mkdir per new ancestor that got its watch before this one existed
                c.P[E("DirCreatedEvent", p)] = i + 1
                c.R.add(E("DirModifiedEvent", _par(p)))
    elif k == "burst":
        # soundness only: whatever the walk-after-mkdir and the kernel report must name an entry the burst created
        for q, kind in rec["new"]:
            p = _rel(q, root)
            if vis(p):
                c.A.add(E(K(kind, "CreatedEvent"), p))
                c.A.add(E("DirModifiedEvent", _par(p)))
                if kind == "f":
                    c.A |= {E("FileOpenedEvent", p), E("FileClosedEvent", p)}
    elif k == "rmdir":
        p = _rel(op[1], root)
        if vis(p):
            c.P[E("DirDeletedEvent", p)] = 1
            c.R.add(E("DirModifiedEvent", _par(p)))
    elif k == "rmtree":
        for q, kind in rec["desc"]:
            p = _rel(q, root)
            if vis(p):
                c.P[E(K(kind, "DeletedEvent"), p)] = 1
                c.R.add(E("DirModifiedEvent", _par(p)))
    elif k in ("rename", "move_out", "move_in"):
        s, d = _rel(op[1], root), _rel(op[2], root)
        kind = rec["pre_kind"][op[1]]
        vs, vd = vis(s), vis(d)
        if vs and vd:
            c.P[E(K(kind, "MovedEvent"), s, d)] = 1
            c.R |= {E("DirModifiedEvent", _par(s)), E("DirModifiedEvent", _par(d))}
            if kind == "d" and recursive:
                for r, rk in rec["desc"]:
                    c.R.add(E(K(rk, "MovedEvent"), s + "/" + r, d + "/" + r, True))
            if rec.get("dest_existed") == "d":
                c.A.add(E("DirModifiedEvent", d))
            # timing-dependent alternative (pair split by the pairing delay): judged by C08, tolerated here
            c.alt_split = {E(K(kind, "DeletedEvent"), s), E(K(kind, "CreatedEvent"), d)} if not full else {
                E(K(kind, "MovedEvent"), s, None), E(K(kind, "MovedEvent"), None, d)}
            if kind == "d" and recursive:
                c.alt_split |= {E(K(rk, "CreatedEvent"), d + "/" + r, None, True) for r, rk in rec["desc"]}
        elif vs:  # leaves the scope
            if full:
                c.P[E(K(kind, "MovedEvent"), s, None)] = 1
            else:
                c.P[E(K(kind, "DeletedEvent"), s)] = 1
            c.R.add(E("DirModifiedEvent", _par(s)))
        elif vd:  # enters the scope
            if full:
                c.P[E(K(kind, "MovedEvent"), None, d)] = 1
            else:
                c.P[E(K(kind, "CreatedEvent"), d)] = 1
            c.R.add(E("DirModifiedEvent", _par(d)))
            if kind == "d" and recursive:
                for r, rk in rec["desc"]:
                    c.R.add(E(K(rk, "CreatedEvent"), d + "/" + r, None, True))
            if rec.get("dest_existed") == "d":
                c.A.add(E("DirModifiedEvent", d))
    return c


def abstract(e, sess):
    src = sess.rel_of(e.src_path) if e.src_path else None
    dst = sess.rel_of(e.dest_path) if e.dest_path else None
    bad = (e.src_path and src is None) or (e.dest_path and dst is None)
    return (type(e).__name__, src, dst, bool(e.is_synthetic)), bad


def justify(h, sess, seg_ops, evs, single):
    """Called by the history driver at every drain with the operations issued and the events delivered since the last one."""
    root = h.u.root_name
    cons = [contract(rec, root, sess.recursive, sess.full) for rec in seg_ops]
    allowed = set()
    for c in cons:
        allowed |= c.allowed()
        if not single:
            allowed |= getattr(c, "alt_split", set())
    counts = {}
    for e in evs:
        a, bad = abstract(e, sess)
        h.c("events_judged")
        counts[a] = counts.get(a, 0) + 1
        if bad:
            h.v("C03", "event-outside-scope", f"event with a path outside the watched root: {e!r}", ops=[r["op"] for r in seg_ops])
        elif a not in allowed:
            same_paths = [x for x in allowed if x[1:3] == a[1:3]]
            if any(x[0] == a[0] for x in same_paths):
                mech = "wrong-synthetic-flag"
            elif same_paths:
                mech = "wrong-type-or-flavour"
            else:
                mech = "unjustified-event"
            h.v("C03", mech, f"delivered event {a} is not explained by the operations since the last drain {[r['op'] for r in seg_ops]}",
                event=a, ops=[r["op"] for r in seg_ops], allowed_sample=sorted(map(str, allowed))[:12])
    if single and len(cons) == 1:
        c = cons[0]
        h.c("contracts_judged")
        if c.P or c.R:
            h.c("contracts_with_events")
        for ev, mx in c.P.items():
            n = counts.get(ev, 0)
            if n < 1 or n > mx:
                h.v("C03", "primary-event-count", f"operation {seg_ops[0]['op']}: primary event {ev} delivered {n} times (contract: 1..{mx})",
                    op=seg_ops[0]["op"], delivered=sorted(map(str, counts)))
        for ev in c.R:
            if counts.get(ev, 0) < 1:
                h.v("C03", "required-event-missing", f"operation {seg_ops[0]['op']}: required event {ev} missing",
                    op=seg_ops[0]["op"], delivered=sorted(map(str, counts)))
