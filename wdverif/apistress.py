"""Shared engine of C04/C05: concurrent API stress on BaseObserver(ScriptedEmitter) with an interval-logic oracle.

Every API call (external or re-entrant) is logged as an interval [call, ret] of logical stamps; every dispatch window
[deq, done] is stamped at the boundary of the observer's own queue (get / task_done wrapped on the instance); every
handler invocation is stamped on entry.  Verdicts are three-valued per (event, handler): must / must-not / undetermined.
"""

from __future__ import annotations

import random
import threading
import time

from wdverif import apirig
from wdverif.apirig import stamp
from wdverif.instrument import Hold, Instr


class Trial:
    def __init__(self, cfg: dict, instr: Instr | None = None):
        from watchdog.observers.api import BaseObserver, ObservedWatch

        self.cfg = cfg
        self.r = random.Random(cfg["seed"])
        self.instr = instr
        # a few emitter construction / start failures: a schedule() that raises must register nothing
        self.plan = apirig.FaultPlan(cfg.get("fail_at", ()))
        self.registry: list = []
        self.obs = BaseObserver(apirig.make_scripted_emitter(self.plan, self.registry), timeout=0.02)
        self.nw, self.nh = cfg["n_watch"], cfg["n_handlers"]
        self.watch = {k: ObservedWatch(f"/w{k}", recursive=False) for k in range(self.nw)}
        self.handlers = {h: apirig.RecHandler(f"h{h}", hook=self._hook) for h in range(self.nh)}
        self.calls: list[dict] = []
        self.calls_lock = threading.Lock()
        self.windows: list[dict] = []
        self._cur = None
        self.stop_flag = threading.Event()
        self.reentrant_budget = cfg.get("reentrant", 0)
        self.dup_mode = cfg.get("dups", False)
        self.twin_mode = cfg.get("twins", False) and not self.dup_mode
        self.drained = False
        self.judge_until = 0
        self.stop_sched_left = 0
        self._wrap_queue()

    # ---- boundary stamps on the observer's queue
    def _wrap_queue(self):
        q = self.obs.event_queue
        real_get, real_done = q.get, q.task_done
        trial = self

        def get(block=True, timeout=None):
            entry = real_get(block, timeout)
            w = {"deq": stamp(), "entry": entry, "done": None}
            trial._cur = w
            trial.windows.append(w)
            return entry

        def task_done():
            w = trial._cur
            if w is not None and w["done"] is None:
                w["done"] = stamp()
            return real_done()

        q.get = get
        q.task_done = task_done

    # ---- logged API calls
    def api(self, op, h=None, k=None, reentrant=False):
        obs = self.obs
        rec = {"op": op, "h": h, "k": k, "thread": threading.current_thread().name, "reentrant": reentrant, "call": stamp()}
        try:
            if op == "schedule":
                obs.schedule(self.handlers[h], f"/w{k}", recursive=False)
            elif op == "unschedule":
                rec["emitters_before"] = [e for e in self.registry if e.watch == self.watch[k] and e.is_alive()]
                obs.unschedule(self.watch[k])
            elif op == "add_handler":
                obs.add_handler_for_watch(self.handlers[h], self.watch[k])
            elif op == "remove_handler":
                obs.remove_handler_for_watch(self.handlers[h], self.watch[k])
            elif op == "unschedule_all":
                rec["emitters_before"] = [e for e in self.registry if e.is_alive()]
                obs.unschedule_all()
            elif op == "stop":
                rec["emitters_before"] = [e for e in self.registry if e.is_alive()]
                obs.stop()
            rec["ok"] = True
        except KeyError as e:
            rec["ok"] = False
            rec["exc"] = "KeyError"
        except BaseException as e:  # noqa: BLE001
            rec["ok"] = False
            rec["exc"] = f"{type(e).__name__}: {e}"
        rec["ret"] = stamp()
        if rec.get("emitters_before") is not None and rec["ok"]:
            rec["emitters_alive_after"] = [e.watch.path for e in rec["emitters_before"] if e.is_alive()]
        with self.calls_lock:
            self.calls.append(rec)
        return rec

    def _shuffle_heap(self):
        """The observer keeps its emitters in a set ordered by id()-hash; objects created one after the other sit in that
        order.  Punch random holes into the allocator's pool of emitter-sized blocks so that the next emitter may land
        before older ones (the iteration order of stop()'s join loop then varies as it does in an application)."""
        cls = self.obs._emitter_class
        blocks = [cls.__new__(cls) for _ in range(12)]
        keep = [b for b in blocks if self.r.random() < 0.5]
        del blocks
        self._fillers = keep

    def _hook(self, handler, event):
        if self.stop_sched_left > 0 and event.src_path.split("/")[-1].startswith("z"):
            # wind-up phase with stop() calls in flight: callbacks keep scheduling fresh watches, so the observer may
            # hold emitters that were never started next to running ones when stop() joins them
            for _ in range(4):
                if not self.obs.should_keep_running():
                    break
                time.sleep(0.0005)  # give a stop() that is being issued the chance to land inside this callback
            if not self.obs.should_keep_running():
                # stop() has raised the flag and waits for the dispatcher: what is scheduled now is never started
                for _ in range(self.r.randint(1, 3)):
                    self.stop_sched_left -= 1
                    self._shuffle_heap()
                    self.api("schedule", int(handler.name[1:]), self.nw + 10 + self.stop_sched_left, reentrant=True)
            elif self.r.random() < 0.5:
                self.stop_sched_left -= 1
                self._shuffle_heap()
                self.api("schedule", int(handler.name[1:]), self.nw + self.stop_sched_left, reentrant=True)
            return
        if self.reentrant_budget <= 0 or self.r.random() > self.cfg.get("reentrant_p", 0.05):
            return
        self.reentrant_budget -= 1
        k = int(event.src_path.split("/")[1][1:])
        h = int(handler.name[1:])
        op = self.r.choice(["unschedule", "remove_handler", "remove_handler", "unschedule_all", "schedule", "add_handler", "remove_other"])
        if op == "remove_other":
            self.api("remove_handler", self.r.randrange(self.nh), k, reentrant=True)
        elif op in ("schedule", "add_handler"):
            self.api(op, self.r.randrange(self.nh), self.r.randrange(self.nw), reentrant=True)
        elif op == "remove_handler":
            self.api(op, h, k, reentrant=True)
        elif op == "unschedule":
            self.api(op, None, k, reentrant=True)
        else:
            self.api(op, reentrant=True)

    # ---- workload threads
    def feeder(self, n_events):
        from watchdog.events import FileModifiedEvent

        seq = 0
        while seq < n_events and not self.stop_flag.is_set():
            for e in list(self.registry):
                if e.is_alive() and e.script.qsize() < 5:
                    k = int(e.watch.path[2:])
                    e.script.put(FileModifiedEvent(f"/w{k}/e{seq:05d}"))
                    if self.dup_mode and self.r.random() < 0.3:
                        e.script.put(FileModifiedEvent(f"/w{k}/e{seq:05d}"))
                    if self.twin_mode and self.r.random() < 0.3:
                        # a different event about the same path (other class / synthetic twin): not a duplicate, must arrive too
                        from watchdog.events import FileClosedEvent

                        e.script.put(self.r.choice([lambda p: FileModifiedEvent(p, is_synthetic=True), FileClosedEvent])(f"/w{k}/e{seq:05d}"))
            seq += 1
            if seq % 3 == 0:
                time.sleep(0.0005)

    def api_thread(self, n_ops, bias_remove):
        r = random.Random(self.r.random())
        for _ in range(n_ops):
            if self.stop_flag.is_set():
                break
            x = r.random()
            h, k = r.randrange(self.nh), r.randrange(self.nw)
            if x < 0.3:
                self.api("schedule", h, k)
            elif x < 0.45:
                self.api("add_handler", h, k)
            elif x < 0.45 + 0.2 + bias_remove * 0.15:
                self.api("remove_handler", h, k)
            elif x < 0.92:
                self.api("unschedule", None, k)
            else:
                self.api("unschedule_all")
            time.sleep(r.choice([0, 0, 0.0003, 0.001]))

    def run(self, hold_plan=None):
        cfg = self.cfg
        for h in range(self.nh):
            for k in range(self.nw):
                if self.r.random() < 0.7:
                    self.api("schedule", h, k)
        for _ in range(8):
            try:
                self.obs.start()
                break
            except apirig.InjectedFailure:
                continue  # the failing emitter has been dropped; retry as the suite does
        hold = None
        threads = [threading.Thread(target=self.feeder, args=(cfg["n_events"],), name="wdv-feeder", daemon=True)]
        for i in range(cfg["n_api_threads"]):
            threads.append(threading.Thread(target=self.api_thread, args=(cfg["n_ops"], cfg.get("bias_remove", 0)), name=f"wdv-api{i}", daemon=True))
        reached = False
        if hold_plan is not None:
            hold = self.instr.add_hold(Hold(hold_plan["role"], hold_plan["qualname"], hold_plan["line"], nth=hold_plan.get("nth", 1), timeout=5.0))
        for t in threads:
            t.start()
        if hold is not None:
            if hold.wait_reached(3.0):
                reached = True
                # partner: one mutating call (or, if an API thread is held, just let the dispatcher run)
                partner = hold_plan.get("partner")
                pt = None
                if partner and partner[0] in ("remove_current", "unschedule_current"):
                    # choose the call that targets what the dispatcher is about to deliver (schedule selection only)
                    import sys as _sys

                    fr = _sys._current_frames().get(hold.thread.ident)
                    cur_h = cur_k = None
                    while fr is not None:
                        if fr.f_code.co_name == "dispatch_events":
                            hh, ww = fr.f_locals.get("handler"), fr.f_locals.get("watch")
                            if ww is not None:
                                cur_k = int(ww.path[2:])
                            if hh is not None:
                                cur_h = int(hh.name[1:])
                            break
                        fr = fr.f_back
                    if cur_k is None:
                        cur_k = 0
                    if cur_h is None:
                        cur_h = 0
                    partner = ("remove_handler", cur_h, cur_k) if partner[0] == "remove_current" else ("unschedule", None, cur_k)
                if partner:
                    pt = threading.Thread(target=lambda: self.api(partner[0], partner[1], partner[2]), name="wdv-partner", daemon=True)
                    pt.start()
                    pt.join(0.15)
                else:
                    time.sleep(0.05)
                hold.release()
                if pt is not None:
                    pt.join(10)
            else:
                hold.release()
        for t in threads:
            t.join(30)
        self.stop_flag.set()
        # let the emitters finish their scripts, then drain the dispatcher; only what was queued before that point is judged
        end = time.monotonic() + 5
        while time.monotonic() < end and any(e.is_alive() and not e.script.empty() for e in self.registry):
            time.sleep(0.002)
        time.sleep(0.03)
        self.judge_until = stamp()
        if self.cfg.get("double_stop"):
            # two threads call stop() at the same time while events are still queued / being dispatched: from the moment
            # EITHER call has returned no removed handler may be invoked
            for e in list(self.registry):
                if e.is_alive():
                    for i in range(6):
                        e.script.put(__import__("watchdog.events", fromlist=["FileModifiedEvent"]).FileModifiedEvent(f"/w{int(e.watch.path[2:])}/z{i:05d}"))
            if self.cfg.get("stop_sched"):
                self.stop_sched_left = 5
                time.sleep(self.r.choice([0, 0.0005, 0.002]))
            else:
                time.sleep(0.004)
            ts = [threading.Thread(target=lambda: self.api("stop"), name=f"wdv-stop{i}", daemon=True) for i in range(2)]
            for t in ts:
                t.start()
            for t in ts:
                t.join(15)
            self.drained = False
        else:
            self.drained = apirig.drain(self.obs, 10)
            self.api("stop")
        self.obs.join(10)
        hung = self.obs.is_alive() or any(t.is_alive() for t in threads)
        if self.instr is not None:
            self.instr.clear_holds()
        return {"reached": reached, "hung": hung}

    # ---- oracle
    def evaluate(self):
        """Returns dict(counts=..., violations=[(prop, mechanism, message, detail)])."""
        calls = sorted(self.calls, key=lambda c: c["call"])
        viol = []
        counts = {"must": 0, "must_not": 0, "undetermined": 0, "windows": 0, "removals_judged": 0, "callbacks": 0,
                  "windows_overlapping_change": 0, "removals_with_queued_events": 0, "reentrant_calls": sum(1 for c in calls if c["reentrant"])}

        def adds(h, k):
            return [c for c in calls if c["ok"] and c["op"] in ("schedule", "add_handler") and c["h"] == h and c["k"] == k]

        def removals(h, k):
            out = []
            for c in calls:
                if not c["ok"]:
                    continue
                if c["op"] in ("unschedule_all", "stop") or (c["op"] == "unschedule" and c["k"] == k) or (c["op"] == "remove_handler" and c["h"] == h and c["k"] == k):
                    out.append(c)
            return out

        # per handler: received (event -> [stamps])
        recv = {}
        for h, H in self.handlers.items():
            d = {}
            for st, ev, th in H.calls:
                d.setdefault(id(ev), []).append(st)
                counts["callbacks"] += 1
            recv[h] = d
        win_of = {}
        for w in self.windows:
            ent = w["entry"]
            if not isinstance(ent, tuple) or w["done"] is None:
                continue
            ev, watch = ent
            k = int(watch.path[2:])
            win_of[id(ev)] = (w, k, ev)
        for evid, (w, k, ev) in win_of.items():
            counts["windows"] += 1
            a, bdone = w["deq"], w["done"]
            changed = any(c["call"] < bdone and c["ret"] > a for c in calls if c["op"] != "stop")
            if changed:
                counts["windows_overlapping_change"] += 1
            for h in self.handlers:
                n = len(recv[h].get(evid, ()))
                A, R = adds(h, k), removals(h, k)
                definitely = any(
                    ad["ret"] < a and all(rm["ret"] < ad["call"] or rm["call"] > bdone for rm in R) for ad in A
                )
                definitely_not = all(
                    any(rm["call"] > ad["ret"] and rm["ret"] <= a for rm in R) for ad in A if ad["call"] <= bdone
                )
                if n > 1:
                    viol.append(("C04", "delivered-twice", f"handler h{h} received event {ev.src_path} {n} times", {"event": ev.src_path, "handler": h}))
                if definitely:
                    counts["must"] += 1
                    if n != 1:
                        viol.append(("C04", "registered-handler-missed-event" if n == 0 else "delivered-twice",
                                     f"handler h{h} was registered for w{k} during the whole dispatch window [{a},{bdone}] of {ev.src_path} but received it {n} times",
                                     {"event": ev.src_path, "handler": h, "window": [a, bdone]}))
                elif definitely_not:
                    counts["must_not"] += 1
                    if n != 0:
                        viol.append(("C04", "unregistered-handler-got-event",
                                     f"handler h{h} was not registered for w{k} at any time of the dispatch window [{a},{bdone}] of {ev.src_path} but received it",
                                     {"event": ev.src_path, "handler": h, "window": [a, bdone]}))
                else:
                    counts["undetermined"] += 1
        # every event an emitter queued before the final drain must have been dequeued, or be a legitimate coalescence:
        # equal to an earlier put of the same emitter that was still un-dequeued when this put began
        if self.drained:
            deq_of = {evid: w["deq"] for evid, (w, k, ev) in win_of.items()}
            for e in self.registry:
                prev = []
                for s_p, ev in e.produced:
                    if s_p > self.judge_until:
                        continue  # queued while the trial was being wound up: may legitimately never be dispatched
                    counts["produced_judged"] = counts.get("produced_judged", 0) + 1
                    if id(ev) not in deq_of and not any(w["entry"][0] is ev for w in self.windows if isinstance(w["entry"], tuple)):
                        ok = any(_same_event(q, ev) and deq_of.get(id(q), 10**18) > s_p for _, q in prev)
                        if ok:
                            counts["coalesced"] = counts.get("coalesced", 0) + 1
                        else:
                            viol.append(("C04", "queued-event-lost", f"event {ev.src_path} queued by the emitter of {e.watch.path} was never dispatched "
                                         f"and no equal event was still undelivered when it was queued", {"event": ev.src_path}))
                    prev.append((s_p, ev))
                    prev = prev[-4:]
        # events delivered for which no window exists (never went through the queue)?
        for h, H in self.handlers.items():
            last = {}
            for st, ev, th in H.calls:
                if id(ev) not in win_of:
                    # window still open at stop (done never stamped) is legitimate only for the very last entry
                    continue
                k = win_of[id(ev)][1]
                if not self.dup_mode:
                    if k in last and (ev.src_path < last[k] if self.twin_mode else ev.src_path <= last[k]):
                        viol.append(("C04", "out-of-order", f"handler h{h} received {ev.src_path} after {last[k]} (same watch)", {"handler": h}))
                    last[k] = ev.src_path
                # C05: callback after the return of a removing call with no re-adding call started in between
                for rm in removals(h, k):
                    if rm["ret"] < st:
                        readd = any(ad["call"] < st and ad["ret"] > rm["call"] for ad in adds(h, k))
                        if not readd:
                            viol.append(("C04", "handler-called-after-its-removal-returned",
                                         f"handler h{h} received {ev.src_path} of w{k} at stamp {st} although {rm['op']}(h={rm['h']},k={rm['k']}) "
                                         f"({'re-entrant' if rm['reentrant'] else 'external'}) had returned at {rm['ret']}: it is not registered for that watch any more",
                                         {"handler": h, "event": ev.src_path}))
                            viol.append(("C05", "callback-after-removal-returned",
                                         f"handler h{h} called for {ev.src_path} at stamp {st} after {rm['op']}(h={rm['h']},k={rm['k']}) by {rm['thread']} "
                                         f"({'re-entrant' if rm['reentrant'] else 'external'}) returned at {rm['ret']}",
                                         {"handler": h, "event": ev.src_path, "removal": {x: rm[x] for x in ('op', 'h', 'k', 'call', 'ret', 'thread', 'reentrant')}}))
                            break
        # C05: removals judged + emitter stopped after unschedule returned
        for c in calls:
            if c["ok"] and c["op"] in ("unschedule", "unschedule_all", "stop", "remove_handler"):
                counts["removals_judged"] += 1
                if any(w["deq"] < c["ret"] and (w["done"] or 10**18) > c["call"] for w in self.windows) or self.obs.event_queue.qsize():
                    counts["removals_with_queued_events"] += 1
                if c.get("emitters_alive_after"):
                    viol.append(("C05", "emitter-alive-after-unschedule", f"{c['op']} returned while emitter(s) of {c['emitters_alive_after']} were still alive", {"call": c["op"]}))
                for e in c.get("emitters_before") or []:
                    late = [s for s, _ in e.produced if s > c["ret"]]
                    if late:
                        viol.append(("C05", "emitter-produced-after-unschedule", f"emitter of {e.watch.path} queued an event after {c['op']} returned", {"call": c["op"]}))
        return {"counts": counts, "violations": viol}


def _same_event(a, b):
    """Reference equality of the statement of C16 (class and every field), independent of the library's own __eq__."""
    return type(a) is type(b) and all(getattr(a, f) == getattr(b, f) for f in ("src_path", "dest_path", "event_type", "is_directory", "is_synthetic"))


def instr_for_observer(seed):
    from watchdog.observers.api import BaseObserver

    from watchdog.utils.bricks import SkipRepeatsQueue

    ins = Instr(seed=seed)
    ins.watch(SkipRepeatsQueue.put, SkipRepeatsQueue._put, SkipRepeatsQueue._get)
    ins.watch(BaseObserver.dispatch_events, BaseObserver.schedule, BaseObserver.unschedule, BaseObserver.remove_handler_for_watch,
              BaseObserver.add_handler_for_watch, BaseObserver.unschedule_all, BaseObserver._remove_emitter, BaseObserver._clear_emitters)
    return ins


def discover_points(seed):
    ins = instr_for_observer(seed)
    ins.discover = True
    with ins:
        for s in range(3):
            t = Trial({"seed": seed + s, "n_watch": 2, "n_handlers": 2, "n_api_threads": 2, "n_ops": 25, "n_events": 40, "reentrant": 3, "reentrant_p": 0.1, "dups": True}, ins)
            t.run()
    pts = []
    for role, qn, line in ins.points:
        if qn == "BaseObserver.dispatch_events" and role == "BaseObserver":
            pts.append(("BaseObserver", qn, line))
        elif role == "ScriptedEmitter" and qn.startswith("SkipRepeatsQueue."):
            pts.append(("ScriptedEmitter", qn, line))
        elif role == "BaseObserver" and qn.startswith("SkipRepeatsQueue."):
            pts.append(("BaseObserver", qn, line))
        elif role and role.startswith("wdv-api") and qn in ("BaseObserver.schedule", "BaseObserver.unschedule", "BaseObserver.remove_handler_for_watch",
                                                            "BaseObserver.unschedule_all", "BaseObserver._remove_emitter"):
            pts.append(("wdv-api0", qn, line))
    return sorted(set(pts), key=lambda t: (t[0], t[1], str(t[2])))
