"""Parent-side runner: fans batches out to worker subprocesses, aggregates what the monitors
observed, classifies violations against known_findings.json, writes evidence, prints verdict lines.

The parent never imports watchdog.  Exit codes: 0 held on what was observed, 1 violation,
2 inconclusive (a deciding monitor saw too little, a worker was lost, ...).
"""

from __future__ import annotations

import concurrent.futures as cf
import hashlib
import importlib
import json
import os
import subprocess
import sys
import tempfile
import time
from pathlib import Path

VERIF = Path(__file__).resolve().parent.parent
PY = os.environ.get("VERIF_PYTHON", "/venv/bin/python")


def repo_root() -> str:
    return os.environ.get("VERIF_REPO", "/repo")


def load_prop(pid: str):
    return importlib.import_module(f"wdverif.props.{pid.lower()}")


def load_known(pid: str) -> list[dict]:
    f = VERIF / "known_findings.json"
    if not f.exists():
        return []
    data = json.loads(f.read_text())
    return [e for e in data.get("findings", []) if e.get("property") == pid]


def _worker_env(seed: int) -> dict:
    env = dict(os.environ)
    env["PYTHONPATH"] = f"{repo_root()}/src:{VERIF}"
    env["PYTHONDONTWRITEBYTECODE"] = "1"
    env["WATCHDOG_VERIF"] = "1"
    env.setdefault("PYTHONHASHSEED", str(seed % 4294967295))
    env["VERIF_REPO"] = repo_root()
    return env


def _run_one(pid: str, spec: dict, workdir: str, idx: int, seed: int) -> dict:
    specf = os.path.join(workdir, f"spec{idx}.json")
    outf = os.path.join(workdir, f"out{idx}.json")
    with open(specf, "w") as fh:
        json.dump(spec, fh)
    timeout = spec.get("timeout_s", spec.get("budget_s", 30) * 4 + 90)
    env = _worker_env(spec.get("hashseed", seed + idx))
    env.update(spec.get("env", {}))  # e.g. a worker whose filesystem encoding is not UTF-8 (C19)
    t0 = time.time()
    try:
        p = subprocess.run(
            [PY, "-X", "faulthandler", "-m", "wdverif.worker", pid, specf, outf],
            env=env,
            cwd=str(VERIF),
            capture_output=True,
            timeout=timeout,
        )
    except subprocess.TimeoutExpired as e:
        err = (e.stderr or b"")[-1500:].decode("utf8", "replace")
        return {"lost": f"worker timeout after {timeout}s (spec {idx}); stderr tail: {err}", "spec": spec}
    if p.returncode != 0 or not os.path.exists(outf):
        return {
            "lost": f"worker exit {p.returncode} (spec {idx}); stderr tail: {p.stderr[-2000:].decode('utf8', 'replace')}",
            "spec": spec,
        }
    with open(outf) as fh:
        res = json.load(fh)
    res["wall"] = time.time() - t0
    try:
        os.unlink(outf)
        os.unlink(specf)
    except OSError:
        pass
    return res


def run_check(pid: str, tier: str, seed: int, jobs: int, replay: str | None = None) -> int:
    t0 = time.time()
    mod = load_prop(pid)
    (VERIF / "evidence").mkdir(exist_ok=True)
    (VERIF / "out").mkdir(exist_ok=True)
    if replay:
        data = json.loads(Path(replay).read_text())
        specs = [data["replay_spec"] if "replay_spec" in data else data]
    else:
        specs = mod.plan(tier, seed, jobs)
    total_cap = getattr(mod, "WALL_CAP", {"quick": 150, "thorough": 3600}).get(tier, 150)
    deadline = t0 + total_cap

    agg = {
        "evaluations": 0,
        "counters": {},
        "sets": {},
        "nontrivial": set(),
        "violations": [],
        "samples": [],
        "inconclusive": [],
        "lost": [],
        "skipped_batches": 0,
        "batches": 0,
    }
    workdir = tempfile.mkdtemp(prefix=f"wdv-{pid}-")

    def task(i_spec):
        i, spec = i_spec
        if time.time() > deadline:
            return {"skipped": True}
        return _run_one(pid, spec, workdir, i, seed)

    try:
        with cf.ThreadPoolExecutor(max_workers=jobs) as ex:
            for res in ex.map(task, list(enumerate(specs))):
                if res.get("skipped"):
                    agg["skipped_batches"] += 1
                    continue
                agg["batches"] += 1
                if "lost" in res:
                    agg["lost"].append(res["lost"])
                    continue
                agg["evaluations"] += res.get("evaluations", 0)
                for k, v in res.get("counters", {}).items():
                    agg["counters"][k] = agg["counters"].get(k, 0) + v
                for k, v in res.get("sets", {}).items():
                    agg["sets"].setdefault(k, set()).update(v)
                agg["nontrivial"].update(res.get("nontrivial", []))
                agg["violations"].extend(res.get("violations", []))
                if len(agg["samples"]) < 6:
                    agg["samples"].extend(res.get("samples", [])[:2])
                agg["inconclusive"].extend(res.get("inconclusive", []))
    finally:
        import shutil

        shutil.rmtree(workdir, ignore_errors=True)

    # ---- classify violations
    known = load_known(pid)
    known_by_mech = {e["mechanism"]: e for e in known}
    known_seen: dict[str, int] = {}
    new_by_mech: dict[str, list[dict]] = {}
    for v in agg["violations"]:
        mech = v.get("mechanism", "unclassified")
        if mech in known_by_mech:
            known_seen[mech] = known_seen.get(mech, 0) + 1
            if os.environ.get("VERIF_SAVE_KNOWN") and known_seen[mech] == 1:
                with open(VERIF / "out" / f"known-{pid}-{mech[:60].replace('/', '_').replace(':', '_')}.json", "w") as fh:
                    json.dump(v, fh, indent=1, default=str)
        else:
            new_by_mech.setdefault(mech, []).append(v)

    # ---- minimum observation counts
    inconclusive = list(agg["inconclusive"])
    if replay is None:
        mins = getattr(mod, "MINIMUMS", {}).get(tier, {})
        for k, need in mins.items():
            have = agg["counters"].get(k, len(agg["sets"].get(k, ())))
            if have < need:
                inconclusive.append(f"monitor counter {k}={have} below minimum {need}")
        if agg["lost"]:
            # a lost worker is never a verdict - and never ignored: what it would have observed is unknown
            if len(agg["lost"]) > 0:
                inconclusive.append(f"{len(agg['lost'])} of {agg['batches']} workers lost: {agg['lost'][0][:120]} ... {agg['lost'][0][-1200:]}")
                try:
                    # keep every lost worker's stderr for diagnosis (the message above shows the first one only)
                    os.makedirs(os.path.join(str(VERIF), "out"), exist_ok=True)
                    with open(os.path.join(str(VERIF), "out", f"{pid}-lost-workers.txt"), "w") as fh:
                        fh.write("\n\n=====\n".join(agg["lost"]))
                except OSError:
                    pass

    # ---- evidence
    wall = time.time() - t0
    cov = {
        "evaluations": agg["evaluations"],
        "distinct_nontrivial": len(agg["nontrivial"]),
        "rule": getattr(mod, "RULE", ""),
        "samples": agg["samples"][:6] or ["(no sample produced)"],
        "counters": dict(sorted(agg["counters"].items())),
        "distinct": {k: len(v) for k, v in sorted(agg["sets"].items())},
        "batches_run": agg["batches"],
        "batches_skipped_by_wall_cap": agg["skipped_batches"],
        "workers_lost": len(agg["lost"]),
        "known_findings_observed": known_seen,
        "new_violation_mechanisms": {k: len(v) for k, v in new_by_mech.items()},
        "inconclusive_reasons": inconclusive[:10],
    }
    for k, v in agg["sets"].items():
        if len(v) <= 60:
            cov.setdefault("distinct_values", {})[k] = sorted(v)
    extra = getattr(mod, "evidence_extra", None)
    if extra:
        cov.update(extra(agg, tier))
    if getattr(mod, "EXHAUSTIVE", {}).get(tier) and not agg["skipped_batches"] and not agg["lost"]:
        cov["exhaustive"] = True
    ev = {
        "property_id": pid,
        "tier": tier,
        "seed": seed,
        "level": getattr(mod, "LEVEL", "exploration"),
        "coverage": cov,
        "assumptions": getattr(mod, "ASSUMPTIONS", []),
        "wall_s": round(wall, 2),
        "violations": sum(len(v) for v in new_by_mech.values()),
        "repo": repo_root(),
        "verdict": "violated" if new_by_mech else ("inconclusive" if inconclusive else "held_on_observed"),
    }
    if replay is None:
        evdir = VERIF / "evidence"
        if os.path.realpath(repo_root()) != "/repo":
            evdir = VERIF / "out" / "evidence-other-repo"
            evdir.mkdir(parents=True, exist_ok=True)
        evf = evdir / f"{pid}.json"
        tmp = str(evf) + ".tmp"
        with open(tmp, "w") as fh:
            json.dump(ev, fh, indent=1, default=str)
        os.replace(tmp, evf)

    # ---- verdict lines
    print(
        f"[{pid}] tier={tier} seed={seed} evaluations={agg['evaluations']} "
        f"distinct_nontrivial={len(agg['nontrivial'])} wall={wall:.1f}s"
    )
    for k, v in sorted(agg["counters"].items()):
        print(f"[{pid}]   {k} = {v}")
    for k, v in sorted(agg["sets"].items()):
        print(f"[{pid}]   distinct {k} = {len(v)}")
    for e in known:
        n = known_seen.get(e["mechanism"], 0)
        print(f"KNOWN-FINDING: property={pid} {e['mechanism']}: {e.get('what', '')} (observed {n}x in this run)")
    rc = 0
    if new_by_mech:
        rc = 1
        for n, (mech, vs) in enumerate(sorted(new_by_mech.items())):
            v = vs[0]
            h = hashlib.sha1(json.dumps(v, sort_keys=True, default=str).encode()).hexdigest()[:10]
            path = VERIF / "out" / f"{pid}-{mech[:40].replace('/', '_')}-{h}.json"
            with open(path, "w") as fh:
                json.dump(v, fh, indent=1, default=str)
            print(f"VIOLATION property={pid} replay={path}")
            print(f"[{pid}]   mechanism={mech} count={len(vs)} summary={str(v.get('summary', ''))[:400]}")
            if n >= 7:
                break
    elif inconclusive:
        rc = 2
        for r in inconclusive[:5]:
            print(f"INCONCLUSIVE property={pid} reason={r[:1500]}")
    else:
        print(f"[{pid}] HELD on everything observed")
    return rc
