"""C10 - polling reports exactly the diff of successive snapshots and survives races.

Real PollingEmitter / DirectorySnapshot over the dict-backed VFS.  Deciding monitors:
  * per-poll event multiset == reference diff keyed by (ino,dev) computed from the VFS states (+ order rule);
  * snapshot == entries reachable in the VFS at that moment, with the stat data stat() returned;
  * fault at every stat/listdir call position: nothing escapes, snapshot == tree minus failed entry and below;
  * mid-walk mutation (race): nothing escapes, every entry comes from the old or the new state;
  * root gone: exactly one DirDeletedEvent(root), emitter stopped;
  * real-thread mode (PollingObserverVFS, real dispatcher): state changes applied atomically at the start of a walk from
    the VFS hook, delivered stream must be the concatenation of the per-poll reference diffs (baseline = tree at start()).
"""

from __future__ import annotations

import errno
import threading
import time
from collections import Counter

from wdverif.env.vfs import VFS, Ent
from wdverif.monitors import Batch, rng_for
from wdverif.props import c09

ID = "C10"
LEVEL = "fault_enumeration"
RULE = (
    "case = (tree state sequence, recursive flag, path type) polled through the real PollingEmitter over a VFS, or "
    "(tree, call position k, errno) for the fault enumeration, or (tree, call position k, next state) for mid-walk races. "
    "Non-trivial iff S0 != S1 for a poll, or the injected fault/mutation actually fired during the walk; distinct by canonical hash."
)
ASSUMPTIONS = [
    "the VFS answers stat/listdir consistently with POSIX lookup rules (ENOENT for missing ancestors, ENOTDIR below files)",
    "direct mode drives on_thread_start()/queue_events(0) from the harness thread (what start() and the emitter loop call); "
    "thread mode uses the real observer, emitter thread and dispatcher",
    "generated states keep one path per inode and never flip the kind of a surviving inode",
]
MINIMUMS = {
    "quick": {"polls_judged": 5000, "fault_positions_fired": 500, "snapshots_judged": 200, "thread_polls_judged": 40,
              "root_gone_judged": 20, "race_walks_judged": 200},
    "thorough": {"polls_judged": 100000, "fault_positions_fired": 5000, "thread_polls_judged": 300},
}
WALL_CAP = {"quick": 150, "thorough": 2400}


class RecQ:
    def __init__(self):
        self.items = []

    def put(self, item, block=True, timeout=None):
        self.items.append(item)

    def take(self):
        out, self.items = self.items, []
        return out


def ident(e: Ent):
    return (e.ino, e.dev)


def ref_slots(reach0: dict, reach1: dict):
    """Expected events as 'slots': each slot is a frozenset of acceptable (class name, src, dest) tuples."""
    inv0 = {ident(e): p for p, e in reach0.items()}
    inv1 = {ident(e): p for p, e in reach1.items()}
    slots = []
    for i, p in inv0.items():
        if i not in inv1:
            slots.append(frozenset([("DirDeletedEvent" if reach0[p].isdir else "FileDeletedEvent", p, "")]))
    for i, p in inv1.items():
        if i not in inv0:
            slots.append(frozenset([("DirCreatedEvent" if reach1[p].isdir else "FileCreatedEvent", p, "")]))
    for i in inv0.keys() & inv1.keys():
        p0, p1 = inv0[i], inv1[i]
        e0, e1 = reach0[p0], reach1[p1]
        if p0 != p1:
            slots.append(frozenset([("DirMovedEvent" if e0.isdir else "FileMovedEvent", p0, p1)]))
        if e0.mtime != e1.mtime or e0.size != e1.size:
            cls = "DirModifiedEvent" if e0.isdir else "FileModifiedEvent"
            slots.append(frozenset([(cls, p0, ""), (cls, p1, "")]))
    return slots


def match_slots(slots, got):
    """Perfect matching between delivered events and slots (tiny bipartite matching). Returns (ok, detail)."""
    if len(slots) != len(got):
        return False, f"count {len(got)} != expected {len(slots)}"
    match = {}

    def aug(g, seen):
        for s, alt in enumerate(slots):
            if got[g] in alt and s not in seen:
                seen.add(s)
                if s not in match or aug(match[s], seen):
                    match[s] = g
                    return True
        return False

    for g in range(len(got)):
        if not aug(g, set()):
            return False, f"event {got[g]!r} has no free expected slot"
    return True, ""


def ev_tuple(ev):
    return (type(ev).__name__, ev.src_path, ev.dest_path)


def order_ok(got):
    """deletions of a kind before creations of that kind"""
    for kind in ("File", "Dir"):
        seen_created = False
        for cls, _, _ in got:
            if cls == kind + "CreatedEvent":
                seen_created = True
            elif cls == kind + "DeletedEvent" and seen_created:
                return False
    return True


def mk_emitter(v: VFS, recursive: bool, via_partial=False):
    from watchdog.observers.api import ObservedWatch
    from watchdog.observers.polling import PollingEmitter

    q = RecQ()
    w = ObservedWatch(v.root, recursive=recursive)
    em = PollingEmitter(q, w, timeout=0, stat=v.stat, listdir=v.listdir)
    return em, q


def judge_poll(b: Batch, v: VFS, em, q, prev_state, new_state, recursive, ctx):
    reach0 = v.reachable(recursive, prev_state)
    v.set_state(new_state)
    reach1 = v.reachable(recursive)
    try:
        em.queue_events(0)
    except BaseException as e:  # noqa: BLE001
        b.violation("poll-raised", f"queue_events raised {type(e).__name__}: {e}", witness=ctx, replay_spec=ctx.get("replay"))
        return False
    got = [ev_tuple(ev) for ev, _w in q.take()]
    slots = ref_slots(reach0, reach1)
    ok, why = match_slots(slots, got)
    b.count("polls_judged")
    b.count("events_judged", len(got))
    if prev_state != new_state:
        b.count("polls_with_change")
    else:
        b.count("polls_without_change")
    if not ok:
        mech = "poll-diff-mismatch" if prev_state != new_state else "poll-events-without-change"
        b.violation(mech, f"{why}; got={got!r} expected={[sorted(s) for s in slots]!r}",
                    witness=dict(ctx, prev=sorted(prev_state.items()), new=sorted(new_state.items()), got=got),
                    replay_spec=ctx.get("replay"))
        return False
    if not order_ok(got):
        b.violation("poll-order", f"a deletion after a creation of the same kind: {got!r}",
                    witness=dict(ctx, prev=sorted(prev_state.items()), new=sorted(new_state.items()), got=got),
                    replay_spec=ctx.get("replay"))
        return False
    return True


def judge_snapshot(b: Batch, v: VFS, recursive, ctx):
    from watchdog.utils.dirsnapshot import DirectorySnapshot

    reach = v.reachable(recursive)
    try:
        s = DirectorySnapshot(v.root, recursive=recursive, stat=v.stat, listdir=v.listdir)
    except BaseException as e:  # noqa: BLE001
        b.violation("snapshot-raised", f"{type(e).__name__}: {e}", witness=ctx, replay_spec=ctx.get("replay"))
        return
    b.count("snapshots_judged")
    if set(s.paths) != set(reach):
        b.violation("snapshot-content", f"snapshot paths {sorted(s.paths, key=repr)!r} != reachable {sorted(reach, key=repr)!r}",
                    witness=ctx, replay_spec=ctx.get("replay"))
        return
    for p, e in reach.items():
        st = s.stat_info(p)
        if (st.st_ino, st.st_dev, st.st_mtime, st.st_size) != (e.ino, e.dev, e.mtime, e.size) or s.isdir(p) != e.isdir \
                or s.inode(p) != (e.ino, e.dev) or s.mtime(p) != e.mtime or s.size(p) != e.size or s.path((e.ino, e.dev)) != p:
            b.violation("snapshot-statdata", f"stat data of {p!r} differs from what stat returned", witness=ctx,
                        replay_spec=ctx.get("replay"))
            return


def run_walk(b: Batch, states, recursive, as_bytes, ctx):
    """states[0] = baseline at start; then one poll per following state (repeats = no-change polls)."""
    v = VFS(as_bytes=as_bytes, root=ctx.get("root", "/r"))
    v.set_state(states[0])
    em, q = mk_emitter(v, recursive)
    try:
        em.on_thread_start()
    except OSError as e:
        b.violation("poll-raised", f"on_thread_start raised {e!r} for an existing root spelled {v.root!r}", witness=ctx, replay_spec=ctx.get("replay"))
        return
    if q.take():
        b.violation("events-at-start", "events queued by on_thread_start", witness=ctx, replay_spec=ctx.get("replay"))
    b.case()
    prev = states[0]
    changed = 0
    for st in states[1:]:
        if not judge_poll(b, v, em, q, prev, st, recursive, ctx):
            return
        changed += prev != st
        prev = st
    if changed:
        b.nontrivial([[sorted(s.items()) for s in states], recursive, as_bytes])


def count_calls(state, recursive):
    from watchdog.utils.dirsnapshot import DirectorySnapshot

    v = VFS()
    v.set_state(state)
    v.keep_log = True
    DirectorySnapshot(v.root, recursive=recursive, stat=v.stat, listdir=v.listdir)
    return v.calls, list(v.log)


def minus_failed(v: VFS, state, kind, path):
    """tree minus the failed entry and what lies below it (stat failed: entry+below; listdir failed: below only)."""
    rel = v._rel(path)
    out = {}
    for p, e in state.items():
        below = p.startswith(rel + "/") if rel else True
        if below or (kind == "stat" and p == rel):
            continue
        out[p] = e
    return out


def run_faults(b: Batch, state, recursive, errnos, ctx):
    from watchdog.utils.dirsnapshot import DirectorySnapshot

    n, log = count_calls(state, recursive)
    for k in range(n):
        kind_k, path_k = log[k]
        # a per-entry stat may fail in more ways than a listing (a link to itself: ELOOP, a dying disk: EIO, an over-long
        # name): whatever the errno, that entry is treated as absent
        ens = tuple(errnos) + ((errno.ELOOP, errno.EIO) if kind_k == "stat" and path_k != VFS().root and len(errnos) > 1 and k % 2 == 0 else ())
        for en in ens:
            kind, path = log[k]
            b.case()
            rs = {"kind": "fault1", "state": sorted(state.items()), "recursive": recursive, "k": k, "errno": en, "lazy": VFS().lazy}
            wit = dict(ctx, state=sorted(state.items()), recursive=recursive, k=k, call=(kind, path), errno=errno.errorcode[en])
            # ---- emitter level: baseline fault-free, poll with the fault, poll without
            v = VFS()
            v.set_state(state)
            em, q = mk_emitter(v, recursive)
            em.on_thread_start()
            v.calls = 0
            v.faults = {k: en}
            try:
                em.queue_events(0)
            except BaseException as e:  # noqa: BLE001
                b.violation("fault-escaped", f"{type(e).__name__}: {e} escaped queue_events (fault {errno.errorcode[en]} at call {k} = {kind}({path!r}))",
                            witness=wit, replay_spec=rs)
                continue
            if not v.fired:
                b.count("fault_positions_not_reached")
                continue
            b.count("fault_positions_fired")
            b.nontrivial([sorted(state.items()), recursive, k, en])
            got = [ev_tuple(ev) for ev, _w in q.take()]
            rel = v._rel(path)
            if rel == "" and (kind == "stat" or en == errno.EACCES):
                # the root itself is gone / unreadable: one DirDeleted(root) and a stopped emitter, or (listdir) empty root
                want = [("DirDeletedEvent", v.root, "")]
                if got != want or em.should_keep_running():
                    b.violation("fault-root", f"root {kind} failed with {errno.errorcode[en]}: got {got!r}, running={em.should_keep_running()}",
                                witness=wit, replay_spec=rs)
                b.count("root_gone_judged")
                continue
            expect_state = minus_failed(v, state, kind, path)
            slots = ref_slots(v.reachable(recursive, state), v.reachable(recursive, expect_state))
            ok, why = match_slots(slots, got)
            if not ok:
                b.violation("fault-snapshot", f"fault {errno.errorcode[en]} at {kind}({path!r}): {why}; got={got!r}", witness=wit, replay_spec=rs)
                continue
            # recovery poll
            v.faults = {}
            try:
                em.queue_events(0)
            except BaseException as e:  # noqa: BLE001
                b.violation("fault-escaped", f"recovery poll raised {type(e).__name__}: {e}", witness=wit, replay_spec=rs)
                continue
            got2 = [ev_tuple(ev) for ev, _w in q.take()]
            slots2 = ref_slots(v.reachable(recursive, expect_state), v.reachable(recursive, state))
            ok, why = match_slots(slots2, got2)
            if not ok:
                b.violation("fault-recovery", f"after the fault cleared: {why}; got={got2!r}", witness=wit, replay_spec=rs)
            # ---- snapshot level
            if k >= 1:
                v2 = VFS()
                v2.set_state(state)
                v2.faults = {k: en}
                try:
                    s = DirectorySnapshot(v2.root, recursive=recursive, stat=v2.stat, listdir=v2.listdir)
                except OSError as e:
                    if not (rel == "" and en == errno.EACCES):
                        b.violation("fault-escaped", f"DirectorySnapshot raised {e!r}", witness=wit, replay_spec=rs)
                    continue
                if set(s.paths) != set(v2.reachable(recursive, expect_state)):
                    b.violation("fault-snapshot", f"snapshot {sorted(s.paths)!r} != tree minus failed entry", witness=wit, replay_spec=rs)


def run_deep(b: Batch, depth):
    """A tree nested deeper than the interpreter's recursion limit (one-character names: such a path fits PATH_MAX)."""
    from watchdog.utils.dirsnapshot import DirectorySnapshot

    st = {}
    p = ""
    for i in range(depth):
        p = "a" if not p else p + "/a"
        st[p] = Ent(10 + i, 0, True, 0, 0)
    st[p + "/f"] = Ent(5, 0, False, 0, 0)
    v = VFS()
    v.set_state(st)
    b.case()
    b.count("deep_trees_judged")
    b.nontrivial(["deep", depth])
    rs = {"kind": "deep1", "depth": depth}
    try:
        s = DirectorySnapshot(v.root, recursive=True, stat=v.stat, listdir=v.listdir)
    except RecursionError:
        b.violation("snapshot-walk-recursion-limit-on-deep-tree", f"DirectorySnapshot of a tree {depth} levels deep raised RecursionError (walk() recurses once per level through nested generators); "
                    "a polling watch on such a tree cannot start, or its emitter thread dies when the tree grows that deep", witness={"depth": depth}, replay_spec=rs)
        return
    if len(s.paths) != depth + 2:
        b.violation("snapshot-content", f"deep tree: {len(s.paths)} paths for {depth + 2} entries", witness={"depth": depth}, replay_spec=rs)


def run_stop_during_walk(b: Batch, s0, s1, recursive, k, ctx):
    """stop() of the emitter lands while a poll is inside its walk (at call k; the tree may also change there): whatever
    that poll still queues must be the true difference between the previous snapshot and the tree - or nothing - never a
    difference against some other baseline."""
    import threading

    v = VFS()
    v.set_state(s0)
    em, q = mk_emitter(v, recursive)
    em.on_thread_start()
    v.calls = 0
    at_k = threading.Event()
    go = threading.Event()
    fired = []

    def hook(vfs, kind, path, idx):
        if idx == k and not fired:
            fired.append(1)
            vfs.set_state(s1)
            at_k.set()
            go.wait(5)

    v.hook = hook
    err = []

    def poll():
        try:
            em.queue_events(0)
        except BaseException as e:  # noqa: BLE001
            err.append(e)

    t = threading.Thread(target=poll, name="wdv-poller", daemon=True)
    t.start()
    reached = at_k.wait(5)
    if reached:
        st = threading.Thread(target=em.stop, name="wdv-stopper", daemon=True)
        st.start()
        st.join(0.05)  # stop() may or may not wait for the poll; either is fine
    go.set()
    t.join(10)
    if reached:
        st.join(10)
    b.case()
    if not reached or t.is_alive():
        return
    b.count("stop_during_walk_judged")
    b.nontrivial(["stopwalk", sorted(s0.items()), sorted(s1.items()), k, recursive])
    wit = dict(ctx, s0=sorted(s0.items()), s1=sorted(s1.items()), k=k, recursive=recursive)
    rs = {"kind": "stopwalk1", "s0": sorted(s0.items()), "s1": sorted(s1.items()), "k": k, "recursive": recursive, "lazy": v.lazy}
    if err:
        b.violation("race-escaped", f"{type(err[0]).__name__}: {err[0]} escaped queue_events when stop() landed during the walk", witness=wit, replay_spec=rs)
        return
    got = [ev_tuple(ev) for ev, _w in q.take()]
    if not got:
        return
    if s0 == s1:
        b.violation("poll-events-without-change", f"stop() during the walk of an unchanged tree: the poll queued {got[:4]!r}", witness=wit, replay_spec=rs)
        return
    # changed at call k: every queued event must be one the true difference s0 -> (a mix of s0 and s1) could contain:
    # paths named must exist in s0 or s1, and nothing may be reported created that s0 already held under that identity
    reach0 = v.reachable(recursive, s0)
    ids0 = {ident(e): p for p, e in reach0.items()}
    reach1 = v.reachable(recursive, s1)
    for cls, src, dest in got:
        if cls.endswith("CreatedEvent") and src in reach0 and src in reach1 and ident(reach0[src]) == ident(reach1[src]):
            b.violation("poll-diff-mismatch", f"stop() during the walk: {cls}({src!r}) although that entry was in the previous snapshot and is unchanged", witness=wit, replay_spec=rs)
            return


def run_race(b: Batch, s0, s1, recursive, k, ctx):
    """At call k of the walk the tree changes from s0 to s1 (entries vanish, dir becomes file, ...)."""
    from watchdog.utils.dirsnapshot import DirectorySnapshot

    v = VFS()
    v.set_state(s0)
    fired = []

    def hook(vfs, kind, path, idx):
        if idx == k and not fired:
            fired.append(1)
            vfs.set_state(s1)

    em, q = mk_emitter(v, recursive)
    em.on_thread_start()
    v.calls = 0
    v.hook = hook
    b.case()
    wit = dict(ctx, s0=sorted(s0.items()), s1=sorted(s1.items()), k=k, recursive=recursive)
    rs = {"kind": "race1", "s0": sorted(s0.items()), "s1": sorted(s1.items()), "k": k, "recursive": recursive, "lazy": VFS().lazy}
    try:
        em.queue_events(0)
    except BaseException as e:  # noqa: BLE001
        b.violation("race-escaped", f"{type(e).__name__}: {e} escaped queue_events when the tree changed at call {k}", witness=wit, replay_spec=rs)
        return
    if not fired:
        return
    b.count("race_walks_judged")
    b.nontrivial([sorted(s0.items()), sorted(s1.items()), k, recursive])
    q.take()
    # the emitter must now converge: one more poll on the stable tree, then a quiet one
    v.hook = None
    try:
        em.queue_events(0)
        q.take()
        em.queue_events(0)
    except BaseException as e:  # noqa: BLE001
        b.violation("race-escaped", f"{type(e).__name__}: {e} after race", witness=wit, replay_spec=rs)
        return
    left = q.take()
    if left:
        b.violation("race-not-converged", f"events on a stable tree after a raced walk: {[ev_tuple(e) for e, _ in left]!r}", witness=wit, replay_spec=rs)
    # snapshot-level membership: every entry comes from s0 or s1
    v3 = VFS()
    v3.set_state(s0)
    v3.hook = hook
    fired.clear()
    try:
        s = DirectorySnapshot(v3.root, recursive=recursive, stat=v3.stat, listdir=v3.listdir)
    except BaseException as e:  # noqa: BLE001
        b.violation("race-escaped", f"DirectorySnapshot raised {type(e).__name__}: {e}", witness=wit, replay_spec=rs)
        return
    r0, r1 = v3.reachable(True, s0), v3.reachable(True, s1)
    for p in s.paths:
        st = s.stat_info(p)
        cands = [x for x in (r0.get(p), r1.get(p)) if x is not None]
        if not any((st.st_ino, st.st_dev, st.st_mtime, st.st_size) == (e.ino, e.dev, e.mtime, e.size) for e in cands):
            b.violation("race-phantom-entry", f"{p!r} in snapshot matches neither the old nor the new state", witness=wit, replay_spec=rs)
            return


def run_root_gone(b: Batch, state, recursive, ctx):
    v = VFS()
    v.set_state(state)
    em, q = mk_emitter(v, recursive)
    em.on_thread_start()
    em.queue_events(0)
    q.take()
    v.root_ent = None
    b.case()
    try:
        em.queue_events(0)
        got = [ev_tuple(ev) for ev, _ in q.take()]
        em.queue_events(0)
        got2 = [ev_tuple(ev) for ev, _ in q.take()]
    except BaseException as e:  # noqa: BLE001
        b.violation("root-gone-raised", f"{type(e).__name__}: {e}", witness=ctx)
        return
    b.count("root_gone_judged")
    if got != [("DirDeletedEvent", v.root, "")] or got2 or em.should_keep_running():
        b.violation("root-gone", f"root removed: first poll {got!r}, second {got2!r}, running={em.should_keep_running()}",
                    witness=dict(ctx, state=sorted(state.items())), replay_spec={"kind": "rootgone1", "state": sorted(state.items()), "recursive": recursive})


class _H:
    def __init__(self):
        self.events = []
        self.lock = threading.Lock()

    def dispatch(self, event):
        with self.lock:
            self.events.append(ev_tuple(event))


def run_thread_mode(b: Batch, states, recursive, ctx, remove_root_at_end=False):
    """Real PollingObserverVFS + emitter thread + dispatcher.  State i+1 is installed from the VFS hook when the
    emitter begins walk number i+1 (its stat of the root), so every change is atomic between two polls."""
    from watchdog.observers.polling import PollingObserverVFS

    v = VFS()
    v.set_state(states[0])
    walks = [0]
    pending = list(states[1:])
    applied = []
    done = threading.Event()

    quiet = [0]

    def hook(vfs, kind, path, idx):
        if kind == "stat" and path == vfs.root:
            walks[0] += 1
            if walks[0] >= 2:  # walk 1 is the baseline taken by start()
                if pending:
                    vfs.set_state(pending.pop(0))
                    applied.append(walks[0])
                else:
                    quiet[0] += 1
                    if quiet[0] >= 2:
                        done.set()

    v.hook = hook
    obs = PollingObserverVFS(v.stat, v.listdir, polling_interval=0.004)
    h = _H()
    rs = {"kind": "thread1", "states": [sorted(s.items()) for s in states], "recursive": recursive, "root": remove_root_at_end}
    wit = dict(ctx, states=[sorted(s.items()) for s in states], recursive=recursive)
    # what the emitter offers to the observer's queue, before the queue may coalesce an event with an equal one that is
    # still waiting (two consecutive polls can each end/begin with FileModified(x))
    offered = []
    real_put = obs.event_queue.put

    def logging_put(item, *a, **k):
        if isinstance(item, tuple):
            offered.append(ev_tuple(item[0]))
        return real_put(item, *a, **k)

    obs.event_queue.put = logging_put
    obs.schedule(h, v.root, recursive=recursive)
    obs.start()
    b.case()
    try:
        ok = done.wait(20)
        emitters = list(obs.emitters)
        if remove_root_at_end:
            v.hook = None
            v.root_ent = None
            t_end = time.monotonic() + 10
            while time.monotonic() < t_end and any(e.is_alive() for e in emitters):
                time.sleep(0.005)
        # drain the dispatcher
        t_end = time.monotonic() + 10
        while time.monotonic() < t_end and obs.event_queue.unfinished_tasks:
            time.sleep(0.002)
    finally:
        obs.stop()
        obs.join(10)
    if not ok:
        b.inconc("thread mode: emitter did not complete the scripted walks within 20 s")
        return
    with h.lock:
        delivered = list(h.events)
    got = list(offered)

    def _collapse(seq):
        out = []
        for x in seq:
            if not out or out[-1] != x:
                out.append(x)
        return out

    if _collapse(delivered) != _collapse(got):
        b.violation("thread-delivery-mismatch", f"what the handler received differs from what the emitter queued by more than coalesced adjacent duplicates: queued {got[-6:]!r} delivered {delivered[-6:]!r}",
                    witness=dict(wit, got=got, delivered=delivered), replay_spec=rs)
        return
    refv = VFS()
    # expected: concatenation of per-poll diffs; adjacent identical events may be coalesced by the event queue
    pos = 0
    prev = states[0]
    for st in states[1:]:
        slots = ref_slots(refv.reachable(recursive, prev), refv.reachable(recursive, st))
        seg = got[pos : pos + len(slots)]
        ok2, why = match_slots(slots, seg)
        b.count("thread_polls_judged")
        if not ok2:
            b.violation("thread-stream-mismatch", f"poll {states.index(st)}: {why}; delivered tail {got[pos:pos + len(slots) + 3]!r}",
                        witness=dict(wit, got=got), replay_spec=rs)
            return
        pos += len(slots)
        prev = st
    rest = got[pos:]
    if remove_root_at_end:
        b.count("root_gone_judged")
        if rest != [("DirDeletedEvent", v.root, "")] or any(e.is_alive() for e in emitters):
            b.violation("thread-root-gone", f"root removed: trailing events {rest!r}, emitter alive={[e.is_alive() for e in emitters]}",
                        witness=dict(wit, got=got), replay_spec=rs)
    elif rest:
        b.violation("thread-extra-events", f"events beyond the scripted changes: {rest!r}", witness=dict(wit, got=got), replay_spec=rs)
    b.nontrivial(["thread", [sorted(s.items()) for s in states], recursive, remove_root_at_end])


def gen_walk(r, n, pool):
    st = c09.random_state(r, pool, maxn=6)
    states = [st]
    for _ in range(n):
        if r.random() < 0.15:
            states.append(states[-1])
            continue
        nxt = st
        for _ in range(6):
            nxt = c09.mutate_state(r, st, pool)
            nxt = {p: e for p, e in nxt.items()}
            if _sane(st, nxt):
                break
            nxt = st
        st = nxt
        states.append(st)
    return states


def _sane(s0, s1):
    """one path per inode, no kind flip of a surviving inode"""
    ids = [ident(e) for e in s1.values()]
    if len(ids) != len(set(ids)):
        return False
    k0 = {ident(e): e.isdir for e in s0.values()}
    return all(k0.get(ident(e), e.isdir) == e.isdir for e in s1.values())


def plan(tier, seed, jobs):
    specs = [{"kind": "deep", "j": 0}]
    nref = len(c09.canonical_refs())
    if tier == "quick":
        for i in range(0, nref, 2):
            specs.append({"kind": "enum", "ref_lo": i, "ref_hi": i + 2, "stride": 7, "offset": (seed + i) % 7})
        for j in range(jobs):
            specs.append({"kind": "walks", "n": 600, "seed": seed, "j": j, "budget_s": 30})
        for j in range(jobs):
            specs.append({"kind": "faults", "n": 60, "seed": seed, "j": j, "budget_s": 30})
        for j in range(jobs):
            specs.append({"kind": "races", "n": 250, "seed": seed, "j": j, "budget_s": 30})
        for j in range(jobs):
            specs.append({"kind": "thread", "n": 16, "seed": seed, "j": j, "budget_s": 30})
    else:
        for i in range(nref):
            specs.append({"kind": "enum", "ref_lo": i, "ref_hi": i + 1, "stride": 2, "offset": seed % 2})
        for j in range(jobs * 4):
            specs.append({"kind": "walks", "n": 3000, "seed": seed, "j": j, "budget_s": 300})
        for j in range(jobs * 2):
            specs.append({"kind": "faults", "n": 400, "seed": seed, "j": j, "budget_s": 300, "shapes": True})
        for j in range(jobs * 2):
            specs.append({"kind": "races", "n": 1500, "seed": seed, "j": j, "budget_s": 300})
        for j in range(jobs * 2):
            specs.append({"kind": "thread", "n": 60, "seed": seed, "j": j, "budget_s": 300})
    return specs


ERRNOS = (errno.ENOENT, errno.ENOTDIR, errno.EACCES)


def run_batch(spec):
    b = Batch(spec)
    kind = spec["kind"]
    pool = list(range(1, 9))
    from wdverif.env import vfs as _vfs

    # every second batch of a kind runs with a listdir that does its work lazily (a generator): failures then surface
    # while the listing is iterated, not when listdir() is called
    _vfs.LAZY = bool(spec.get("lazy", spec.get("j", 0) % 2 == 1))
    if _vfs.LAZY:
        b.count("batches_with_lazy_listdir")
    if kind == "enum":
        refs = c09.canonical_refs()[spec["ref_lo"] : spec["ref_hi"]]
        for s0 in refs:
            for idx, s1 in enumerate(c09.new_states()):
                if idx % spec["stride"] != spec["offset"]:
                    continue
                if not _sane(s0, s1):
                    continue
                ctx = {"mode": "enum", "replay": {"kind": "walk1", "states": [sorted(s0.items()), sorted(s1.items()), sorted(s1.items())], "recursive": True, "bytes": False}}
                run_walk(b, [s0, s1, s1], True, False, ctx)
    elif kind == "walks":
        r = rng_for(spec["seed"], "c10w", spec["j"])
        for n in range(spec["n"]):
            if b.expired():
                break
            states = gen_walk(r, r.randint(3, 20), pool)
            rec, byt = r.random() < 0.7, r.random() < 0.25
            # the watch path as the caller spelled it (relative, not normalised): the snapshot keys and event paths are built on it
            root = r.choice(["/r", "/r", "r", "./r", "x/../r"])
            ctx = {"mode": "walk", "root": root, "replay": {"kind": "walk1", "states": [sorted(s.items()) for s in states], "recursive": rec, "bytes": byt, "root": root}}
            b.add("root_spellings", root)
            run_walk(b, states, rec, byt, ctx)
            if n % 5 == 0:
                v = VFS(as_bytes=byt)
                v.set_state(states[-1])
                judge_snapshot(b, v, rec, {"mode": "snapshot", "state": sorted(states[-1].items()), "recursive": rec})
                run_root_gone(b, states[-1], rec, {"mode": "rootgone"})
                # two devices below one root: the same inode NUMBER on both names two different directories, each with content
                st2 = c09.random_state(r, pool, maxn=8, devs=(0, 1))
                dirs0 = [(p_, e_) for p_, e_ in st2.items() if e_.isdir and e_.dev == 0]
                dirs1 = [(p_, e_) for p_, e_ in st2.items() if e_.isdir and e_.dev == 1 and not any(p_ == q_ or p_.startswith(q_ + "/") or q_.startswith(p_ + "/") for q_, _ in dirs0[:1])]
                if dirs0 and dirs1 and not any(e_.ino == dirs0[0][1].ino and e_.dev == 1 for e_ in st2.values()):
                    st2[dirs1[0][0]] = dirs1[0][1]._replace(ino=dirs0[0][1].ino)
                    b.count("snapshots_with_same_ino_on_two_devices")
                v2 = VFS(as_bytes=byt)
                v2.set_state(st2)
                judge_snapshot(b, v2, True, {"mode": "snapshot", "state": sorted(st2.items()), "recursive": True})
            if n == 0:
                b.sample({"states": [{k: tuple(e) for k, e in s.items()} for s in states[:4]], "recursive": rec, "bytes": byt})
    elif kind == "faults":
        r = rng_for(spec["seed"], "c10f", spec["j"])
        trees = []
        if spec.get("shapes"):
            trees += [s for i, s in enumerate(c09.canonical_refs()) if i % 32 == spec["j"] % 32]
        for _ in range(spec["n"]):
            trees.append(c09.random_state(r, pool, maxn=8))
        for st in trees:
            if b.expired():
                break
            for rec in (True, False):
                run_faults(b, st, rec, ERRNOS, {"mode": "faults"})
        if trees:
            b.sample({"fault_tree": {k: tuple(e) for k, e in trees[-1].items()}, "errnos": [errno.errorcode[e] for e in ERRNOS]})
    elif kind == "races":
        r = rng_for(spec["seed"], "c10r", spec["j"])
        for _ in range(spec["n"]):
            if b.expired():
                break
            s0 = c09.random_state(r, pool, maxn=8)
            s1 = s0
            for _ in range(5):
                s1 = c09.mutate_state(r, s0, pool)
                if _sane(s0, s1) or r.random() < 0.3:
                    break
            if not c09.difflaws:  # pragma: no cover
                pass
            ids = [ident(e) for e in s1.values()]
            if len(ids) != len(set(ids)):
                continue
            rec = r.random() < 0.8
            n, _ = count_calls(s0, rec)
            for k in sorted(set([1, 2] + [r.randrange(1, max(2, n)) for _ in range(4)])):
                if k < n:
                    run_race(b, s0, s1, rec, k, {"mode": "race"})
            if n >= 2:
                kk = r.randrange(1, n)
                run_stop_during_walk(b, s0, s0 if r.random() < 0.6 else s1, rec, kk, {"mode": "stopwalk"})
    elif kind == "thread":
        r = rng_for(spec["seed"], "c10t", spec["j"])
        for n in range(spec["n"]):
            if b.expired():
                break
            states = [s for s in gen_walk(r, r.randint(2, 6), pool)]
            # avoid identical adjacent events across consecutive polls being coalesced: drop no-change repeats
            dedup = [states[0]]
            for s in states[1:]:
                if s != dedup[-1]:
                    dedup.append(s)
            run_thread_mode(b, dedup, r.random() < 0.7, {"mode": "thread"}, remove_root_at_end=(n % 2 == 0))
    elif kind == "walk1":
        run_walk(b, [{k: Ent(*v) for k, v in s} for s in spec["states"]], spec["recursive"], spec["bytes"], {"mode": "replay", "replay": spec, "root": spec.get("root", "/r")})
    elif kind == "fault1":
        run_faults(b, {k: Ent(*v) for k, v in spec["state"]}, spec["recursive"], [spec["errno"]], {"mode": "replay"})
    elif kind == "race1":
        run_race(b, {k: Ent(*v) for k, v in spec["s0"]}, {k: Ent(*v) for k, v in spec["s1"]}, spec["recursive"], spec["k"], {"mode": "replay"})
    elif kind == "deep":
        for depth in (300, 1100):
            run_deep(b, depth)
    elif kind == "deep1":
        run_deep(b, spec["depth"])
    elif kind == "stopwalk1":
        run_stop_during_walk(b, {k: Ent(*v) for k, v in spec["s0"]}, {k: Ent(*v) for k, v in spec["s1"]}, spec["recursive"], spec["k"], {"mode": "replay"})
    elif kind == "rootgone1":
        run_root_gone(b, {k: Ent(*v) for k, v in spec["state"]}, spec["recursive"], {"mode": "replay"})
    elif kind == "thread1":
        run_thread_mode(b, [{k: Ent(*v) for k, v in s} for s in spec["states"]], spec["recursive"], {"mode": "replay"}, spec["root"])
    return b.to_dict()
