"""C03 - every delivered event is justified and correctly typed; single operations meet their contract.
Oracle: wdverif/fsjustify.py (contracts + justification), driven by the history engine of C01."""

from __future__ import annotations

import itertools

from wdverif import fshist, fsjustify
from wdverif.monitors import Batch, rng_for
from wdverif.props import c01, c09

ID = "C03"
LEVEL = "exploration"
RULE = (
    "case = (a) single-step: one operation applied in one tree state (enumerated: every applicable operation in each of the 41 tree "
    "shapes over {a,b}, depth<=2, <=3 entries, x {recursive, non-recursive} x {normal, full emitter}; quick: strided) with a drain "
    "before and after, judged for the full contract; (b) history: a paced random history judged for soundness of every event.  "
    "Non-trivial iff the operation produced >=1 event (single-step) / >=5 events were judged (history); distinct by (config, state, op)."
)
ASSUMPTIONS = c01.ASSUMPTIONS + [
    "per-operation allowed/required event sets encode inotify(7) semantics of the syscalls the rig issues on this kernel (table in "
    "DESIGN section 3/C03); identical adjacent events may have been coalesced, so 'required' means >= 1 and only the primary event is counted",
    "a rename whose two halves were split by the pairing delay is tolerated in history mode (pairing is C08's subject); single-step "
    "mode keeps the default 0.5 s delay and demands the paired moved event",
]
MINIMUMS = {"quick": {"events_judged": 5000, "contracts_judged": 300}, "thorough": {"contracts_judged": 5000}}
WALL_CAP = {"quick": 170, "thorough": 3000}


def enumerate_ops(state: dict):
    """All operations applicable in `state` ({rel -> 'f'|'d'} under root) over names {a,b}, depth<=2 (+1 for bursts)."""
    root = "root"
    dirs = [""] + [p for p, k in state.items() if k == "d"]
    ops = []
    full = lambda rel: root + "/" + rel if rel else root  # noqa: E731
    for d in dirs:
        for n in ("a", "b"):
            p = (d + "/" + n) if d else n
            if p not in state and p.count("/") <= 2:
                ops.append(("create", full(p)))
                ops.append(("mkdir", full(p)))
                if p.count("/") <= 1:
                    ops.append(("makedirs", full(p + "/a/b")))
    for p, k in state.items():
        if k == "f":
            ops += [("write", full(p)), ("chmod", full(p)), ("unlink", full(p))]
        else:
            ops.append(("chmod", full(p)))
            if not any(q.startswith(p + "/") for q in state):
                ops.append(("rmdir", full(p)))
            ops.append(("rmtree", full(p)))
        ops.append(("move_out", full(p), "out/oX"))
        for d in dirs:
            if d == p or d.startswith(p + "/"):
                continue
            for n in ("a", "b"):
                q = (d + "/" + n) if d else n
                if q == p or q.startswith(p + "/") or q.count("/") > 2:
                    continue
                if q in state:
                    if state[q] == "f" and k == "f":
                        ops.append(("rename", full(p), full(q)))
                    elif state[q] == "d" and k == "d" and not any(x.startswith(q + "/") for x in state) and not p.startswith(q + "/"):
                        ops.append(("rename", full(p), full(q)))
                else:
                    ops.append(("rename", full(p), full(q)))
    for d in dirs:
        for n in ("a", "b"):
            q = (d + "/" + n) if d else n
            if q not in state and q.count("/") <= 1:
                ops.append(("move_in", "out/file", full(q)))
                ops.append(("move_in", "out/tree", full(q)))
    return ops


def shapes():
    return [{p: ("d" if isd else "f") for p, isd in sh.items()} for sh in c09.shapes()]


def apply_op(state: dict, op):
    """pure model of an operation on {rel -> kind} (paths as produced by enumerate_ops)"""
    st = dict(state)
    r = lambda p: p[len("root/"):]  # noqa: E731
    k = op[0]
    if k == "create":
        st[r(op[1])] = "f"
    elif k == "mkdir":
        st[r(op[1])] = "d"
    elif k == "makedirs":
        parts = r(op[1]).split("/")
        for i in range(1, len(parts) + 1):
            st.setdefault("/".join(parts[:i]), "d")
    elif k in ("unlink", "rmdir", "rmtree", "move_out"):
        p = r(op[1])
        for q in [q for q in st if q == p or q.startswith(p + "/")]:
            del st[q]
    elif k == "rename":
        s_, d_ = r(op[1]), r(op[2])
        sub = {q: st[q] for q in st if q == s_ or q.startswith(s_ + "/")}
        for q in [q for q in st if q == d_ or q.startswith(d_ + "/")] + list(sub):
            st.pop(q, None)
        for q, kk in sub.items():
            st[d_ + q[len(s_):]] = kk
    elif k == "move_in":
        d_ = r(op[2])
        if op[1] == "out/file":
            st[d_] = "f"
        else:
            st.update({d_: "d", d_ + "/a": "d", d_ + "/a/b": "f", d_ + "/b": "f"})
    return st


def single_case(b: Batch, state, op, recursive, full, idx, prop="C03", script=None, single_step=True, justify=fsjustify.justify):
    """Fresh universe: build `state`, start the watch, apply `op` (or a script of ops) between drains, judge."""
    import os

    cfg = {"seed": idx, "recursive": recursive, "full": full, "n_root": 0, "n_out": 0, "delay": 0.5 if single_step else 0.1, "single_step": single_step,
           "bg_writer": single_step and op[0] == "rename" and idx % 2 == 0,
           "final_probes": False, "probe_p": 0.0, "mode": "single", "state": sorted(state.items()), "script": [list(op)] if script is None else [list(o) for o in script]}
    h = fshist.History(cfg)
    orig_populate = fshist.Universe.populate

    def populate(u, n_root=0, n_out=0):
        for p in sorted(state, key=lambda p: p.count("/")):
            if state[p] == "d":
                os.mkdir(u.abs("root/" + p))
            else:
                with open(u.abs("root/" + p), "w"):
                    pass
            u.m.t["root/" + p] = state[p]
        with open(u.abs("out/file"), "w"):
            pass
        u.m.t["out/file"] = "f"
        for q, k in (("out/tree", "d"), ("out/tree/a", "d"), ("out/tree/a/b", "f"), ("out/tree/b", "f")):
            if k == "d":
                os.mkdir(u.abs(q))
            else:
                with open(u.abs(q), "w"):
                    pass
            u.m.t[q] = k

    fshist.Universe.populate = populate
    try:
        h.run(justify=justify)
    finally:
        fshist.Universe.populate = orig_populate
    fshist.account(b, h, prop, cfg, nontrivial=h.events_seen >= 1)
    return h


# directed histories (regression corpus): events for changes made to a directory after it left the tree must never appear
CORPUS = [
    {"seed": 14, "recursive": True, "n_root": 0, "n_out": 0, "final_probes": False, "probe_p": 0.0, "delay": 0.1,
     "script": [["mkdir", "root/b"], ["mkdir", "root/a"], ["drain"], ["create", "root/a/f"], ["drain"], ["rename", "root/a", "root/b"], ["drain"],
                ["move_out", "root/b", "out/o9"], ["drain"], ["mkdir", "root/b"], ["drain"], ["unlink", "out/o9/f"], ["create", "out/o9/g"], ["drain"],
                ["create", "root/b/h"], ["drain"]]},
    {"seed": 11, "recursive": True, "n_root": 0, "n_out": 0, "final_probes": False, "probe_p": 0.0, "delay": 0.1,
     "script": [["mkdir", "root/a"], ["drain"], ["move_out", "root/a", "out/o9"], ["drain"], ["create", "out/o9/x"], ["write", "out/o9/x"], ["mkdir", "out/o9/d"], ["drain"]]},
    {"seed": 12, "recursive": True, "n_root": 0, "n_out": 0, "final_probes": False, "probe_p": 0.0, "delay": 0.1,
     "script": [["mkdir", "root/b"], ["mkdir", "root/a"], ["drain"], ["create", "root/a/f"], ["drain"], ["rename", "root/a", "root/b"], ["drain"],
                ["move_out", "root/b", "out/o9"], ["drain"], ["create", "out/o9/g"], ["write", "out/o9/f"], ["drain"]]},
    {"seed": 13, "recursive": True, "n_root": 0, "n_out": 0, "final_probes": False, "probe_p": 0.0, "delay": 0.1,
     "script": [["makedirs", "root/a/b"], ["drain"], ["move_out", "root/a", "out/o9"], ["drain"], ["mkdir", "root/a"], ["drain"], ["create", "out/o9/b/x"],
                ["create", "root/a/y"], ["drain"], ["rmtree", "out/o9"], ["drain"]]},
]


def plan(tier, seed, jobs):
    specs = [{"kind": "corpus", "budget_s": 60}]
    if tier == "quick":
        k = jobs
        for off in range(k):
            specs.append({"kind": "single", "stride": k * 5, "offset": (seed + off * 5) % (k * 5), "budget_s": 60})
        for j in range(jobs):
            specs.append({"kind": "history", "n": 60, "seed": seed, "j": j, "budget_s": 50})
    else:
        k = jobs * 4
        for off in range(k):
            specs.append({"kind": "single", "stride": k, "offset": off, "budget_s": 1500})
        for j in range(jobs * 3):
            specs.append({"kind": "history", "n": 3000, "seed": seed, "j": j, "budget_s": 200})
    return specs


EXHAUSTIVE = {"thorough": True}


def run_batch(spec):
    b = Batch(spec)
    if spec["kind"] == "single":
        idx = -1
        for state in shapes():
            for op in enumerate_ops(state):
                for recursive, full in itertools.product((True, False), (False, True)):
                    idx += 1
                    if idx % spec["stride"] != spec["offset"]:
                        continue
                    if b.expired():
                        b.count("single_cases_skipped_by_budget")
                        continue
                    single_case(b, state, op, recursive, full, idx)
        b.count("single_case_space", idx + 1)
    elif spec["kind"] == "corpus":
        for cfg in CORPUS:
            for full in (False, True):
                for mode, rs in (("plain", None), ("small", 300)):
                    c01.run_one(b, dict(cfg, full=full, mode=mode, read_size=rs), "C03", justify=fsjustify.justify)
                    b.count("corpus_cases")
    elif spec["kind"] == "history":
        r = rng_for(spec["seed"], "C03", spec["j"])
        for n in range(spec["n"]):
            if b.expired():
                break
            cfg = c01.make_cfg(r, spec["seed"] * 1000003 + spec["j"] * 10007 + n)
            # operations inside directories after they left the tree: nothing of that may be reported (soundness)
            cfg["out_ops"] = r.random() < 0.6
            cfg["bg_writer"] = r.random() < 0.3
            if n % 3 == 0:
                cfg["single_step"] = True
                cfg["delay"] = 0.5
                cfg["mode"] = "plain"
                cfg["read_size"] = None
                if n % 2 == 0:
                    # one native record per read(2): the two halves of every rename arrive in different batches and can only
                    # be paired through the delay queue (all names of the universe fit a 32-byte record)
                    cfg["mode"] = "small"
                    cfg["read_size"] = 32
                cfg["n_ops"] = min(cfg["n_ops"], 12)
            h = c01.run_one(b, cfg, "C03", justify=fsjustify.justify)
    elif spec["kind"] == "history1":
        cfg = spec["cfg"]
        if "state" in cfg:
            single_case(b, dict((p, k) for p, k in cfg["state"]), tuple(cfg["script"][0]), cfg["recursive"], cfg["full"], cfg["seed"])
        else:
            c01.run_one(b, cfg, "C03", justify=fsjustify.justify)
    return b.to_dict()
