"""C04 - queued events reach each registered handler exactly once, in order, nobody else.
Engine: wdverif/apistress.py (interval-logic oracle over logged API intervals, dispatch windows and handler stamps)."""

from __future__ import annotations

import sys

from wdverif import apistress
from wdverif.monitors import Batch, rng_for

ID = "C04"
PROP = "C04"
LEVEL = "exploration"
RULE = (
    "case = one trial: BaseObserver over scripted emitters (1-3 watches, 1-3 handlers, uniquely identified events), 0-3 API "
    "threads issuing random schedule/unschedule/add/remove/unschedule_all, re-entrant calls from handlers, with a plan "
    "(plain stress | sys.monitoring noise | directed hold at a discovered line of dispatch_events or of an API call, with a "
    "partner call).  Non-trivial iff >=1 registration change overlapped a dispatch window and >=20 callbacks happened (hold "
    "trials: the hold point was reached); distinct by (config, plan, seed)."
)
ASSUMPTIONS = [
    "emitters are scripted; events carry unique ids so every delivery is attributed",
    "three-valued oracle: only (event, handler) pairs whose registration is determined over the whole dispatch window are judged",
    "schedules: natural + noise + single directed preemptions at line granularity with one partner call; not exhaustive",
]
MINIMUMS = {"quick": {"must_or_mustnot_verdicts": 10000, "hold_cases_reached": 40, "windows_overlapping_change": 300},
            "thorough": {"must_or_mustnot_verdicts": 300000, "hold_cases_reached": 600}}
WALL_CAP = {"quick": 160, "thorough": 3000}
BIAS_REMOVE = 0


def trial_cfg(r, seed, big=False):
    return {"seed": seed, "n_watch": r.randint(1, 3), "n_handlers": r.randint(1, 3), "n_api_threads": r.choice([0, 1, 2, 2, 3]),
            "n_ops": r.randint(10, 40), "n_events": r.randint(30, 80 if not big else 200), "reentrant": r.choice([0, 2, 5]),
            "reentrant_p": r.choice([0.03, 0.1]), "bias_remove": BIAS_REMOVE, "dups": r.random() < 0.15, "twins": r.random() < 0.3,
            "fail_at": sorted({r.randrange(2, 40) for _ in range(r.choice([0, 0, 2, 4]))}), "double_stop": r.random() < 0.3, "stop_sched": r.random() < 0.5}


def account(b: Batch, t, res, out, prop, cfg, hold_plan, mode):
    ev = t.evaluate()
    c = ev["counts"]
    b.case()
    b.count("must_or_mustnot_verdicts", c["must"] + c["must_not"])
    for k in ("must", "must_not", "undetermined", "windows", "callbacks", "removals_judged", "windows_overlapping_change",
              "removals_with_queued_events", "reentrant_calls", "produced_judged", "coalesced"):
        b.count(k, c.get(k, 0))
    if hold_plan is not None:
        b.count("hold_cases_reached" if res["reached"] else "hold_cases_not_reached")
        if res["reached"]:
            b.add("hold_points_reached", f"{hold_plan['role']}:{hold_plan['qualname']}:{hold_plan['line']}")
    if res["hung"]:
        b.inconc(f"{prop} trial did not terminate (judged under C06)")
    nontriv = (c["windows_overlapping_change"] >= 1 and c["callbacks"] >= 20) if hold_plan is None else res["reached"]
    if prop == "C05":
        nontriv = (c["removals_with_queued_events"] >= 1) if hold_plan is None else res["reached"]
    if nontriv:
        b.nontrivial([cfg, hold_plan, mode])
    for p, mech, msg, det in ev["violations"]:
        if p == prop:
            b.violation(mech, msg + f"  [mode={mode} cfg={cfg} hold={hold_plan}]", witness={"cfg": cfg, "hold": hold_plan, "detail": det,
                        "calls": [{k: v for k, v in c.items() if k not in ("emitters_before",)} for c in sorted(t.calls, key=lambda c: c["call"])][-60:]},
                        replay_spec={"kind": "trial1", "cfg": cfg, "hold": hold_plan, "mode": mode})
        else:
            b.count(f"side_observation_{p}_{mech}")
    if len(b.samples) < 2 and c["windows"] > 10:
        b.sample({"cfg": cfg, "mode": mode, "hold": hold_plan, "windows": c["windows"], "must": c["must"], "must_not": c["must_not"],
                  "undetermined": c["undetermined"], "api_calls": len(t.calls)})


PARTNERS = [("remove_current",), ("remove_current",), ("unschedule_current",), ("unschedule", None, 0), ("remove_handler", 0, 0), ("remove_handler", 1, 0), ("unschedule_all", None, None), ("schedule", 1, 0), ("add_handler", 1, 0)]


def run_batch_for(prop, spec):
    b = Batch(spec)
    sys.setswitchinterval(1e-4)
    r = rng_for(spec["seed"], prop, spec["j"], spec["kind"])
    if spec["kind"] in ("stress", "noise"):
        ins = None
        if spec["kind"] == "noise":
            ins = apistress.instr_for_observer(spec["seed"] + spec["j"])
            ins.set_noise(0.05, 0.0005)
            ins.start()
        try:
            for n in range(spec["n"]):
                if b.expired():
                    break
                cfg = trial_cfg(r, spec["seed"] * 100003 + spec["j"] * 1009 + n)
                t = apistress.Trial(cfg, ins)
                res = t.run()
                account(b, t, res, None, prop, cfg, None, spec["kind"])
        finally:
            if ins:
                ins.stop()
    elif spec["kind"] == "holds":
        pts = apistress.discover_points(spec["seed"])
        for p in pts:
            b.add("hold_points_planned", f"{p[0]}:{p[1]}:{p[2]}")
        if not pts:
            b.inconc("no lines discovered in BaseObserver.dispatch_events / API calls")
            return b.to_dict()
        ins = apistress.instr_for_observer(spec["seed"] + spec["j"])
        with ins:
            n = 0
            while n < spec["n"] and not b.expired():
                for role, qn, line in pts:
                    if n >= spec["n"] or b.expired():
                        break
                    n += 1
                    cfg = trial_cfg(r, spec["seed"] * 100003 + spec["j"] * 1009 + n)
                    cfg["n_handlers"] = max(2, cfg["n_handlers"])
                    if role == "ScriptedEmitter" or qn.startswith("SkipRepeatsQueue."):
                        cfg["n_api_threads"] = 0
                        cfg["dups"] = True
                        cfg["reentrant"] = 0
                        hp = {"role": role, "qualname": qn, "line": line, "nth": r.choice([1, 2, 3, 5, 8, 13]), "partner": None}
                    elif role == "BaseObserver":
                        cfg["n_api_threads"] = r.choice([0, 0, 1])
                        hp = {"role": role, "qualname": qn, "line": line, "nth": r.choice([1, 2, 3, 5, 8]), "partner": list(r.choice(PARTNERS))}
                    else:
                        cfg["n_api_threads"] = max(1, cfg["n_api_threads"])
                        hp = {"role": role, "qualname": qn, "line": line, "nth": r.choice([1, 1, 2]), "partner": None}
                    t = apistress.Trial(cfg, ins)
                    res = t.run(hold_plan=hp)
                    account(b, t, res, None, prop, cfg, hp, "hold")
    elif spec["kind"] == "trial1":
        ins = apistress.instr_for_observer(1)
        with ins:
            for _ in range(10):
                t = apistress.Trial(spec["cfg"], ins)
                res = t.run(hold_plan=spec.get("hold"))
                account(b, t, res, None, prop, spec["cfg"], spec.get("hold"), "replay")
    return b.to_dict()


def plan(tier, seed, jobs):
    specs = []
    if tier == "quick":
        for j in range(jobs):
            specs.append({"kind": "stress", "n": 60, "seed": seed, "j": j, "budget_s": 40})
        for j in range(jobs // 2):
            specs.append({"kind": "noise", "n": 40, "seed": seed, "j": j, "budget_s": 40})
        for j in range(jobs):
            specs.append({"kind": "holds", "n": 40, "seed": seed, "j": j, "budget_s": 50})
    else:
        for j in range(jobs * 3):
            specs.append({"kind": "stress", "n": 1500, "seed": seed, "j": j, "budget_s": 120})
        for j in range(jobs * 2):
            specs.append({"kind": "noise", "n": 800, "seed": seed, "j": j, "budget_s": 120})
        for j in range(jobs * 3):
            specs.append({"kind": "holds", "n": 600, "seed": seed, "j": j, "budget_s": 150})
    return specs


def run_batch(spec):
    return run_batch_for("C04", spec)
