"""C02 - a recursive watch covers every directory that exists, under its current name.
Same history engine as C01; the deciding monitor is the probe oracle: at quiescent points a probe file is created in
every existing directory and must be reported as FileCreatedEvent under exactly its real path (non-recursive: only
probes directly in the root are reported, deeper ones never)."""

from __future__ import annotations

from wdverif import fshist
from wdverif.monitors import Batch, rng_for
from wdverif.props import c01

ID = "C02"
LEVEL = "exploration"
RULE = (
    "case = one paced operation history biased to building/reshaping directories (nested bursts, create-then-rename without "
    "pause, rename chains of a directory and of its ancestors, move-in of trees, names repeating the root's own component with a "
    "relative root) followed - and at random intermediate drains preceded - by one probe per existing directory.  Non-trivial iff "
    ">=2 directories exist at probe time and >=1 was not present at start; distinct by (config, history)."
)
ASSUMPTIONS = c01.ASSUMPTIONS + ["a probe = O_CREAT|O_EXCL of a fresh name in the directory, judged between two sentinel drains"]
MINIMUMS = {"quick": {"probes_judged": 500, "probes_in_dirs_not_present_at_start": 150}, "thorough": {"probes_judged": 20000}}
WALL_CAP = c01.WALL_CAP
BIAS = {"mkdir": 4, "makedirs": 4, "rename_dir": 7, "move_in": 5, "create": 1, "write": 0.5, "chmod": 0.3, "unlink": 0.7,
        "rmdir": 1, "rmtree": 0.7, "move_out": 1.5, "rename_file": 1, "rename_replace": 1}

# regression corpus: witnesses of defects found (and repaired) earlier; run on every invocation
CORPUS = [
    # F5: relative root 'a', tree a/a/a, rename of a/a: descendants' watch paths must be re-keyed by prefix only
    {"seed": 1, "root_name": "a", "spelling": "rel", "recursive": True, "n_root": 0, "n_out": 1, "final_probes": True, "probe_p": 0.0,
     "prefix_tree": ["a/a/a"], "script": [["rename", "a/a", "a/b"], ["drain"], ["mkdir", "a/b/a/c"], ["drain"], ["rename", "a/b", "a/a"], ["drain"]]},
    # F7: directory created and renamed with no pause; ancestor renamed right after a nested mkdir; tree moved in from outside
    {"seed": 2, "recursive": True, "n_root": 0, "n_out": 3, "final_probes": True, "probe_p": 0.0,
     "script": [["mkdir", "root/a"], ["rename", "root/a", "root/b"], ["drain"], ["makedirs", "root/c/b/c"], ["rename", "root/c/b", "root/a"], ["drain"]]},
    {"seed": 3, "recursive": True, "n_root": 0, "n_out": 4, "final_probes": True, "probe_p": 0.0,
     "script": [["move_in", "out/o1", "root/a"], ["move_in", "out/o2", "root/b"], ["move_in", "out/o3", "root/c"], ["drain"]]},
    # F8: directory moved out, its name re-used, another directory renamed onto the name
    {"seed": 4, "recursive": True, "n_root": 0, "n_out": 1, "final_probes": True, "probe_p": 0.0,
     "script": [["makedirs", "root/a/b"], ["drain"], ["move_out", "root/a", "out/o9"], ["drain"], ["mkdir", "root/b"], ["drain"],
                ["rename", "root/b", "root/a"], ["drain"], ["mkdir", "root/a/c"], ["drain"]]},
]


# state that only goes wrong after many cycles: hundreds of moves in the watch's lifetime; a directory rename (probed at once)
# as the n-th and (n+1)-th move for n around the powers of two where caches and counters are usually bounded
def _long_life_script():
    sc = [["makedirs", "root/d0/s"], ["create", "root/f0"], ["drain"]]
    k = 0
    moves = 0
    marks = {62, 63, 126, 127, 254, 255, 256, 510, 511, 1022, 1023}
    for i in range(1030):
        sc.append(["rename", f"root/f{i % 2}", f"root/f{(i + 1) % 2}"])
        moves += 1
        if moves in marks:
            sc += [["drain"], ["rename", f"root/d{k}", f"root/d{k + 1}"], ["drain", "probe"]]
            k += 1
            moves += 1
    return sc + [["drain"]]


CORPUS.append({"seed": 5, "recursive": True, "n_root": 0, "n_out": 1, "final_probes": True, "probe_p": 1.0, "follow_symlink": True,
               "script": _long_life_script()})
CORPUS.append(dict(CORPUS[-1], seed=6, follow_symlink=False))


def make_cfg(r, seed):
    cfg = c01.make_cfg(r, seed, probe_p=0.35)
    cfg["bias"] = BIAS
    cfg["n_ops"] = r.randint(6, 25)
    if r.random() < 0.3:
        cfg["names"] = ["a", "ab", "b"]  # names that are string prefixes of each other
    if r.random() < 0.35:
        cfg["root_name"] = "a"
        cfg["spelling"] = "rel"
        if r.random() < 0.5:
            cfg["prefix_tree"] = ["a/a", "b/a/b"]
    return cfg


def plan(tier, seed, jobs):
    specs = [{"kind": "corpus", "budget_s": 60}, {"kind": "arrival", "seed": seed, "budget_s": 60}]
    if tier == "quick":
        for j in range(jobs):
            specs.append({"kind": "random", "n": 200, "seed": seed, "j": j, "budget_s": 55})
    else:
        for j in range(jobs * 4):
            specs.append({"kind": "random", "n": 5000, "seed": seed, "j": j, "budget_s": 200})
    return specs


def run_batch(spec):
    b = Batch(spec)
    if spec["kind"] == "corpus":
        for cfg in CORPUS:
            for mode, rs in (("plain", None), ("small", 300)):
                c = dict(cfg, mode=mode, read_size=rs)
                h = c01.run_one(b, c, "C02")
                b.count("corpus_cases")
    elif spec["kind"] == "arrival":
        # a tree arrives (moved in / created as a burst) while one inotify_add_watch fails as if that directory had just
        # vanished: every directory outside that sub-tree must still be covered (engine shared with C07)
        import errno

        from wdverif.props import c07

        faults = c07.AddWatchFaults()
        try:
            for shape in c07.ARRIVAL_SHAPES:
                for method in ("move_in", "burst"):
                    for j in range(len(shape) + 2):
                        if b.expired():
                            break
                        c07.run_arrival_fault(b, faults, shape, method, j, errno.ENOENT, spec["seed"])
                        if j % 2 == 0:
                            # the watch limit reached for that one directory: the others must be covered all the same
                            c07.run_arrival_fault(b, faults, shape, method, j, errno.ENOSPC, spec["seed"])
        finally:
            faults.restore()
    elif spec["kind"] == "random":
        r = rng_for(spec["seed"], "C02", spec["j"])
        for n in range(spec["n"]):
            if b.expired():
                break
            cfg = make_cfg(r, spec["seed"] * 1000003 + spec["j"] * 10007 + n)
            h = fshist.History(cfg)
            ins = None
            if "slow" in cfg.get("mode", ""):
                ins = c01.slow_reader_instr(cfg["seed"])
                ins.start()
            try:
                h.run()
            finally:
                if ins:
                    ins.stop()
            nontriv = h.counts.get("probes_in_dirs_not_present_at_start", 0) >= 1 and h.counts.get("probes_judged", 0) >= 2
            fshist.account(b, h, "C02", cfg, nontriv)
            b.add("modes", cfg.get("mode", "plain"))
    elif spec["kind"] == "history1":
        for _ in range(3):
            c01.run_one(b, spec["cfg"], "C02")
    return b.to_dict()
