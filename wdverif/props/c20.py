"""C20 - Windows and macOS translation layers meet the same contract on well-formed input.

The real WindowsApiEmitter.queue_events (+ real winapi.read_events / _parse_event_buffer over a fake kernel32) and the real
FSEventsEmitter.events_callback (over a shimmed _watchdog_fsevents) are fed native batches rendered by documented-semantics
simulators from histories executed on a real scratch directory.  Oracles: C01 replay, the rename / move-in / move-out
contract, scope of a non-recursive watch, no swallowed exception; exact round trip for the two binary decoders."""

from __future__ import annotations

import logging
import os
import random
import struct

from wdverif import fsrig
from wdverif.env import platshim, simkernel
from wdverif.fsrig import OpGen, Pacer, Universe, op_footprint
from wdverif.monitors import Batch, rng_for

ID = "C20"
LEVEL = "exploration"
RULE = (
    "case = (platform in {windows, fsevents}; recursive flag; one paced history on a scratch directory; a rendering of it into "
    "native batches: one batch per drain plus random extra cuts; FSEvents: flags of consecutive changes to the same (item, path) "
    "OR-ed within a batch, optionally the Created flag of an item repeated on its later events (sticky historic flags); Windows: optional parent-directory MODIFIED records, optional cut between "
    "RENAMED_OLD and RENAMED_NEW) | (decoder; record count 0-6; name lengths; padding).  Non-trivial iff the history is rendered into "
    ">=2 batches with >=1 rename or boundary move / the buffer holds >=2 records; distinct by (platform, config, history, cuts)."
)
ASSUMPTIONS = [
    "simulator fidelity: Windows - ADDED/REMOVED/MODIFIED per entry relative to the root, RENAMED_OLD_NAME immediately followed by "
    "RENAMED_NEW_NAME for a rename within one directory, REMOVED+ADDED for a move between directories or across the watch boundary, "
    "only the top entry of a moved-in tree, subtree flag honoured; FSEvents - one event per (item, path) with Created/Removed/Renamed/"
    "Modified/InodeMetaMod + IsFile/IsDir and the real inode, both ends of a rename flagged Renamed, batches delivered after the "
    "operations they cover.  Anything the real OSes do beyond this (history replay, dropped flags, 8.3 names, network shares) is not covered",
    "the emitters are driven by direct calls of queue_events() / events_callback() (what the emitter thread / the native callback do)",
    "POSIX path separators (the layers run on Linux under import shims)",
    "inode numbers: by default no inode number is re-used during a history (APFS/NTFS behaviour; deleted entries are parked outside the root); "
    "in the 'reuse' regime (30% of FSEvents histories) an inode freed by a deletion that FSEvents reports with a Removed record may be "
    "re-used, but only after the batch carrying that record was delivered; inodes freed without any record (the replaced destination of a "
    "rename, deletions outside the root) are never re-used - the emitter's inode set cannot learn about those",
    "with sticky historic flags (an item's Created flag repeated on its later events) a spurious created event next to the real one is "
    "harmless for the replay; the exact one-event move contracts are judged only on histories rendered without sticky flags",
]
MINIMUMS = {"quick": {"windows_histories": 300, "fsevents_histories": 300, "decoder_buffers": 8000},
            "thorough": {"windows_histories": 15000, "fsevents_histories": 15000, "decoder_buffers": 400000}}
WALL_CAP = {"quick": 170, "thorough": 3000}

BIAS = {"rename_dir": 4, "rename_file": 3, "move_in": 3, "move_out": 3, "mkdir": 3, "makedirs": 1, "create": 3, "write": 2, "chmod": 1, "unlink": 2,
        "rmdir": 1.5, "rmtree": 1, "rename_replace": 1, "burst": 0}


class RecQ:
    def __init__(self):
        self.items = []

    def put(self, item, block=True, timeout=None):
        self.items.append(item[0])

    def take(self):
        out, self.items = self.items, []
        return out


class Adapter:
    """what fsrig.replay needs from a session"""

    def __init__(self, root, recursive):
        self.root_spelled = root
        self.recursive = recursive

    def rel_of(self, path):
        p = os.fsdecode(path) if isinstance(path, bytes) else path
        if p == self.root_spelled:
            return ""
        if p.startswith(self.root_spelled + "/"):
            return p[len(self.root_spelled) + 1:]
        return None


class LogTrap(logging.Handler):
    def __init__(self):
        super().__init__()
        self.records = []

    def emit(self, record):
        if record.levelno >= logging.ERROR:
            self.records.append(self.format(record)[-1200:])


# ------------------------------------------------------------------------------------------------ rendering
def rel(p, root):
    if p == root:
        return ""
    return p[len(root) + 1:] if p.startswith(root + "/") else None


def render_windows(rec, root, recursive, r, opts):
    """native (action, relative name) list for one executed operation"""
    op = rec["op"]
    k = op[0]
    out = []

    def vis(x):
        return x is not None and x != "" and (recursive or "/" not in x)

    def mod_parent(x):
        par = x.rsplit("/", 1)[0] if "/" in x else None
        if opts.get("parent_mod") and par and vis(par) and r.random() < 0.5:
            out.append((platshim.FILE_ACTION_MODIFIED, par))

    if k in ("create", "mkdir"):
        x = rel(op[1], root)
        if vis(x):
            out.append((platshim.FILE_ACTION_ADDED, x))
            mod_parent(x)
    elif k == "makedirs":
        first = True
        for q in rec["new"]:
            x = rel(q, root)
            if vis(x):
                out.append((platshim.FILE_ACTION_ADDED, x))
    elif k in ("write", "chmod"):
        x = rel(op[1], root)
        if vis(x):
            out.append((platshim.FILE_ACTION_MODIFIED, x))
    elif k in ("unlink", "rmdir"):
        x = rel(op[1], root)
        if vis(x):
            out.append((platshim.FILE_ACTION_REMOVED, x))
            mod_parent(x)
    elif k == "rmtree":
        for q, kind in sorted(rec["desc"], key=lambda t: -t[0].count("/")):
            x = rel(q, root)
            if vis(x):
                out.append((platshim.FILE_ACTION_REMOVED, x))
    elif k in ("rename", "move_out", "move_in"):
        s, d = rel(op[1], root), rel(op[2], root)
        vs, vd = vis(s), vis(d)
        if vs and vd and os.path.dirname(s) == os.path.dirname(d):
            out.append((platshim.FILE_ACTION_RENAMED_OLD_NAME, s))
            out.append((platshim.FILE_ACTION_RENAMED_NEW_NAME, d))
        else:
            if vs:
                out.append((platshim.FILE_ACTION_REMOVED, s))
            if vd:
                out.append((platshim.FILE_ACTION_ADDED, d))
    return out


def render_fsevents(rec, u, root_abs):
    """native (path, inode, flags) list for one executed operation (before coalescing)"""
    P = platshim
    op = rec["op"]
    k = op[0]
    out = []
    A = u.abs

    def inside(p):
        return p == u.root_name or p.startswith(u.root_name + "/")

    def kindflag(kind):
        return P.F_IS_DIR if kind == "d" else P.F_IS_FILE

    if k in ("create", "mkdir"):
        p = op[1]
        if inside(p):
            out.append((A(p), rec["ino_after"].get(p, 0), P.F_CREATED | (P.F_IS_DIR if k == "mkdir" else P.F_IS_FILE)))
    elif k == "makedirs":
        for q in rec["new"]:
            if inside(q):
                out.append((A(q), rec["ino_after"].get(q, 0), P.F_CREATED | P.F_IS_DIR))
    elif k == "write":
        p = op[1]
        if inside(p):
            out.append((A(p), rec["ino_before"].get(p, 0), P.F_MODIFIED | P.F_IS_FILE))
    elif k == "chmod":
        p = op[1]
        if inside(p):
            out.append((A(p), rec["ino_before"].get(p, 0), P.F_INODE_META | kindflag(rec["pre_kind"][p])))
    elif k in ("unlink", "rmdir"):
        p = op[1]
        if inside(p):
            out.append((A(p), rec["ino_before"].get(p, 0), P.F_REMOVED | (P.F_IS_DIR if k == "rmdir" else P.F_IS_FILE)))
    elif k == "rmtree":
        for q, kind in sorted(rec["desc"], key=lambda t: -t[0].count("/")):
            if inside(q):
                out.append((A(q), rec["ino_before"].get(q, 0), P.F_REMOVED | kindflag(kind)))
    elif k in ("rename", "move_out", "move_in"):
        s, d = op[1], op[2]
        ino = rec["ino_before"].get(s, 0)
        kf = kindflag(rec["pre_kind"][s])
        if inside(s):
            out.append((A(s), ino, P.F_RENAMED | kf))
        if inside(d):
            out.append((A(d), ino, P.F_RENAMED | kf))
    return out


def coalesce_fsevents(events):
    """flags of consecutive changes to the same (item, path) OR-ed within a batch (position of the first occurrence kept)"""
    out = []
    idx = {}
    for path, ino, flags in events:
        key = (path, ino)
        if key in idx and out[idx[key]] is not None and idx[key] == len(out) - 1:
            p, i, f = out[idx[key]]
            out[idx[key]] = (p, i, f | flags)
        else:
            idx[key] = len(out)
            out.append((path, ino, flags))
    return out


# ------------------------------------------------------------------------------------------------ history driver
def run_history(b: Batch, platform, cfg, k32=None):
    r = random.Random(cfg["seed"])
    u = Universe(r)
    u.record_inodes = True
    # deletions are renames into a graveyard outside the root: the emitters look entries up by path, so this is invisible to
    # them, and it keeps ext4 from re-using inode numbers at once (which APFS/NTFS do not do and which the inode-keyed
    # FSEvents logic could not tell from a rename)
    u.graveyard = os.path.join(u.base, ".grave")
    os.mkdir(u.graveyard)
    reuse = platform == "fsevents" and cfg.get("reuse")
    if reuse:
        # the other regime: entries deleted inside the root (the deletions FSEvents reports with a Removed record) are really
        # deleted, so the file system may hand the freed inode number to a later item - but only after the batch that reports
        # the deletion has been delivered (a delivery follows every freeing operation).  Inodes freed without a Removed
        # record (the replaced destination of a rename, deletions outside the root) stay allocated as before.
        b.count("fsevents_histories_with_inode_reuse_allowed")
    trap = LogTrap()
    logging.getLogger().addHandler(trap)
    logging.getLogger("fsevents").addHandler(trap)
    b.case()
    b.count(f"{platform}_histories")
    rs = {"kind": "hist1", "platform": platform, "cfg": cfg}
    try:
        u.populate(cfg.get("n_root", 4), cfg.get("n_out", 3))
        for q, kk in u.m.t.items():
            u.ever_kinds.setdefault(q, set()).add(kk)
        root_abs = u.abs(u.root_name)
        if reuse:
            u.real_delete_below = root_abs
        flags = {"chain": False, "stale_kind": False, "cut_inside_op": False}
        recursive = cfg["recursive"]
        from watchdog.observers.api import ObservedWatch

        q = RecQ()
        as_bytes = platform == "fsevents" and cfg.get("bytes")
        watch = ObservedWatch(os.fsencode(root_abs) if as_bytes else root_abs, recursive=recursive)
        if as_bytes:
            b.count("fsevents_histories_with_bytes_root")
        # a filter that names a base class accepts every event: the stream must be the same as without a filter
        filt = None
        if cfg.get("base_filter"):
            from watchdog.events import FileSystemEvent

            filt = [FileSystemEvent]
            b.count("histories_with_base_class_filter")
        if platform == "windows":
            from watchdog.observers.read_directory_changes import WindowsApiEmitter

            em = WindowsApiEmitter(q, watch, event_filter=filt)
            em.on_thread_start()
        else:
            from watchdog.observers.fsevents import FSEventsEmitter

            em = FSEventsEmitter(q, watch, event_filter=filt)
        adapter = Adapter(root_abs, recursive)
        tree = dict(u.walk_root())
        pacer = Pacer()
        gen = OpGen(u, r, bias=BIAS)
        ops = []
        native_log = []
        stream = []
        seg = []  # op records since the last batch
        n_batches = 0
        boundary_moves = 0
        next_id = [1]
        split_pending = []

        last_seg = []
        sticky_created = {}
        gone = set()
        reported = set()

        def flush():
            nonlocal n_batches, seg
            last_seg[:] = list(seg)
            if platform == "windows":
                recs = list(split_pending)
                split_pending.clear()
                for rec in seg:
                    recs += render_windows(rec, u.root_name, recursive, r, cfg)
                seg = []
                if not recs:
                    return
                if cfg.get("split_rename") and recs[-1][0] == platshim.FILE_ACTION_RENAMED_OLD_NAME:
                    pass
                # optional cut between RENAMED_OLD and RENAMED_NEW (the buffer filled up exactly there)
                if cfg.get("split_rename"):
                    for i in range(len(recs) - 1):
                        if recs[i][0] == platshim.FILE_ACTION_RENAMED_OLD_NAME and r.random() < 0.5:
                            first, rest = recs[: i + 1], recs[i + 1:]
                            for chunk in (first, rest):
                                _feed_windows(chunk)
                            return
                _feed_windows(recs)
            else:
                evs = []
                moved_items = {}
                for rec in seg:
                    evs += render_fsevents(rec, u, root_abs)
                    if rec["op"][0] in ("rename", "move_in", "move_out"):
                        ino = rec["ino_before"].get(rec["op"][1])
                        moved_items[ino] = moved_items.get(ino, 0) + 1
                if any(v >= 2 for v in moved_items.values()):
                    flags["chain"] = True  # one item renamed / moved more than once between two deliveries
                seg = []
                if not evs:
                    return
                evs = coalesce_fsevents(evs)
                if cfg.get("sticky"):
                    # FSEvents may keep OR-ing flags it has already reported for an item into later events of that item
                    # (the reason the emitter keeps a set of inodes it has seen created)
                    out2 = []
                    for p_, i_, f_ in evs:
                        out2.append((p_, i_, f_ | sticky_created.get(i_, 0)))
                        if f_ & platshim.F_CREATED:
                            sticky_created[i_] = platshim.F_CREATED
                    evs = out2
                # random extra cut
                chunks = [evs]
                flags["cut_inside_op"] = False
                if len(evs) >= 2 and r.random() < 0.4:
                    flags["cut_inside_op"] = True
                    c = r.randrange(1, len(evs))
                    chunks = [evs[:c], evs[c:]]
                for ch in chunks:
                    ren = {}
                    for _p, _i, _f in ch:
                        if _f & platshim.F_RENAMED:
                            ren.setdefault(_i, []).append(_p)
                    # one item renamed more than once inside one batch (a -> c -> b, or moved in and out again): the
                    # first-with-next pairing of the emitter cannot be right for all of them
                    if any(len(v) >= 3 or len(set(v)) < len(v) for v in ren.values()):
                        flags["chain"] = True
                    n_batches += 1
                    native_log.append([(p[len(root_abs):], i, hex(f)) for p, i, f in ch])
                    ids = list(range(next_id[0], next_id[0] + len(ch)))
                    next_id[0] += len(ch)
                    try:
                        em.events_callback([p for p, _, _ in ch], [i for _, i, _ in ch], [f for _, _, f in ch], ids)
                    except Exception as e:  # noqa: BLE001
                        if "raised" not in reported:
                            reported.add("raised")
                            b.violation("fsevents-emitter-raised", f"FSEventsEmitter.events_callback raised {type(e).__name__}: {e}",
                                        witness={"platform": platform, "cfg": cfg, "ops": ops, "native": native_log[-3:]}, replay_spec=rs)
                    stream.extend(q.take())
                    # invariant at a quiescent point on the anchored state: the set of inodes "known to exist" holds no item
                    # whose last native record said Removed (such a stale entry swallows the created event of the next item
                    # that is given this inode number)
                    last_flag = {}
                    for _p, _i, _f in ch:
                        last_flag[_i] = _f
                    for _i, _f in last_flag.items():
                        if _f & platshim.F_REMOVED:
                            gone.add(_i)
                        else:
                            gone.discard(_i)
                    fsv = getattr(em, "_fs_view", None)
                    if fsv is not None:
                        b.count("fs_view_invariant_checks")
                        stale = gone & set(fsv)
                        if stale and not flags["chain"] and "fsview" not in reported:
                            reported.add("fsview")
                            b.violation("fsevents-known-inode-set-keeps-removed-item",
                                        f"after a delivery FSEventsEmitter._fs_view still holds inode(s) {sorted(stale)[:3]} of items whose last native record carried Removed",
                                        witness={"platform": platform, "cfg": cfg, "ops": ops, "native": native_log[-4:]}, replay_spec=rs)

        def _feed_windows(recs):
            nonlocal n_batches
            n_batches += 1
            # does the disk, at the time the emitter gets to this batch, still show the kind each added name had when it was added?
            seen_kind = {}
            for action, name in recs:
                if action in (platshim.FILE_ACTION_ADDED, platshim.FILE_ACTION_RENAMED_NEW_NAME):
                    seen_kind.setdefault(name, set())
            for name in seen_kind:
                kinds_ever = u.ever_kinds.get(u.root_name + "/" + name, set())
                now = "d" if os.path.isdir(os.path.join(root_abs, name)) else ("f" if os.path.exists(os.path.join(root_abs, name)) else None)
                if len(kinds_ever) > 1 or (now is not None and kinds_ever and now not in kinds_ever):
                    flags["stale_kind"] = True
            native_log.append(list(recs))
            k32.batches.append(platshim.pack_fni(recs, pad_words=r.choice([0, 0, 1, 2]), exact_last=r.random() < 0.5))
            try:
                em.queue_events(0.01)
            except Exception as e:  # noqa: BLE001
                # EventEmitter.run() has no handler: the emitter thread would die here and every later notification be lost
                if "raised" not in reported:
                    reported.add("raised")
                    b.violation("windows-emitter-raised", f"WindowsApiEmitter.queue_events raised {type(e).__name__}: {e} on a well-formed buffer {recs[:6]}",
                                witness={"platform": platform, "cfg": cfg, "ops": ops, "native": native_log[-3:]}, replay_spec=rs)
            stream.extend(q.take())

        consumed = [0]

        def compare():
            """replay what was delivered since the last comparison and compare with the disk (every delivery point is quiescent)"""
            new = stream[consumed[0]:]
            consumed[0] = len(stream)
            wit = {"platform": platform, "cfg": cfg, "ops": ops, "native": native_log[-6:], "stream": [fsrig.ev_desc(e) for e in stream][-30:]}
            notes = fsrig.replay(tree, new, adapter)
            want = u.walk_root() if recursive else {p: k for p, k in u.walk_root().items() if "/" not in p}
            got = dict(tree) if recursive else {p: k for p, k in tree.items() if "/" not in p}
            if platform == "windows":
                got = {p: "?" for p in got}
                want = {p: "?" for p in want}
            b.count("replay_comparisons")
            if set(got) != set(want) or any(got[p] != want[p] for p in got):
                missing = sorted(set(want) - set(got))
                extra = sorted(set(got) - set(want))
                kinds = sorted(p for p in set(got) & set(want) if got[p] != want[p])
                mech = f"{platform}-replay-mismatch"
                if platform == "windows" and cfg.get("split_rename") and any(e.event_type == "moved" and not e.src_path for e in new):
                    mech = "windows-rename-split-across-reads-loses-source"
                if platform == "windows" and flags["stale_kind"] and mech == "windows-replay-mismatch":
                    mech = "windows-stale-kind-lookup-after-name-reuse"
                if platform == "fsevents" and flags["chain"]:
                    mech = "fsevents-rename-chain-in-one-batch-mispaired"
                elif platform == "fsevents" and not recursive and all("d" in (got.get(p), want.get(p)) for p in missing + extra + kinds):
                    mech = "fsevents-nonrecursive-drops-direct-child-directory-events"
                if mech not in reported:
                    reported.add(mech)
                    b.violation(mech, f"{platform} (recursive={recursive}): replaying the emitter's stream does not reproduce the tree: missing={missing[:5]} extra={extra[:5]} wrong-kind={kinds[:3]}",
                                witness=wit, replay_spec=rs)
                tree.clear()
                tree.update(u.walk_root())
            for n in notes:
                b.violation(f"{platform}-event-outside-root", n, witness=wit, replay_spec=rs)
            # ---- the rename / move-in / move-out contract, judged when the operation is alone in its delivery
            deep_inside = lambda p_: p_.startswith(u.root_name + "/") and not recursive and p_[len(u.root_name) + 1:].count("/") >= 1  # noqa: E731
            if len(last_seg) == 1 and last_seg[0]["op"][0] in ("rename", "move_in", "move_out") and not flags.get("cut_inside_op") and not cfg.get("sticky") \
                    and not (platform == "fsevents" and (deep_inside(last_seg[0]["op"][1]) or deep_inside(last_seg[0]["op"][2]))):
                rec = last_seg[0]
                op = rec["op"]
                s_rel, d_rel = rel(op[1], u.root_name), rel(op[2], u.root_name)
                kind = rec["pre_kind"][op[1]]

                def vis(x):
                    return x is not None and x != "" and (recursive or "/" not in x)

                prim = [e for e in new if not e.is_synthetic and e.event_type in ("moved", "created", "deleted")]
                syn = [e for e in new if e.is_synthetic]
                desc = rec["desc"] if (kind == "d" and recursive) else []
                same_dir = vis(s_rel) and vis(d_rel) and (platform != "windows" or os.path.dirname(s_rel) == os.path.dirname(d_rel))
                b.count("move_contracts_judged")
                if same_dir:
                    ok = len(prim) == 1 and prim[0].event_type == "moved" and adapter.rel_of(prim[0].src_path) == s_rel and adapter.rel_of(prim[0].dest_path) == d_rel
                    want_syn = sorted((s_rel + "/" + r_, d_rel + "/" + r_) for r_, _k in desc)
                    got_syn = sorted((adapter.rel_of(e.src_path), adapter.rel_of(e.dest_path)) for e in syn if e.event_type == "moved")
                    if not ok or want_syn != got_syn:
                        if not (platform == "windows" and cfg.get("split_rename")) and not (platform == "fsevents" and not recursive and kind == "d"):
                            b.violation(f"{platform}-rename-contract", f"rename {s_rel} -> {d_rel} delivered {[fsrig.ev_desc(e)[:3] for e in prim]} + {len(syn)} synthetic (expected one moved event with both paths + {len(want_syn)} synthetic)",
                                        witness=wit, replay_spec=rs)
                elif vis(d_rel) and not vis(s_rel):
                    ok = len(prim) == 1 and prim[0].event_type == "created" and adapter.rel_of(prim[0].src_path) == d_rel
                    want_syn = sorted(d_rel + "/" + r_ for r_, _k in desc)
                    got_syn = sorted(adapter.rel_of(e.src_path) for e in syn if e.event_type == "created")
                    if (not ok or want_syn != got_syn) and not (platform == "fsevents" and not recursive and kind == "d"):
                        b.violation(f"{platform}-move-in-contract", f"move-in of {d_rel} delivered {[fsrig.ev_desc(e)[:3] for e in prim]} + synthetic {got_syn} (expected created + {want_syn})",
                                    witness=wit, replay_spec=rs)
                elif vis(s_rel) and not vis(d_rel):
                    ok = len(prim) == 1 and prim[0].event_type == "deleted" and adapter.rel_of(prim[0].src_path) == s_rel
                    if not ok and not (platform == "fsevents" and not recursive and kind == "d"):
                        b.violation(f"{platform}-move-out-contract", f"move-out of {s_rel} delivered {[fsrig.ev_desc(e)[:3] for e in prim]} (expected one deleted event)", witness=wit, replay_spec=rs)
            flags["chain"] = False
            flags["stale_kind"] = False

        _flush = flush

        def flush():  # noqa: F811
            _flush()
            compare()

        follow = []
        for _ in range(cfg["n_ops"]):
            queued = bool(follow)
            op = follow.pop(0) if follow else gen.next_op()
            if op is None:
                break
            if op[0] in ("unlink", "create") and ((op[0] == "unlink") != (u.m.t.get(op[1]) == "f")):
                continue  # a queued follow-up that no longer applies
            touches, names, hot = op_footprint(u, op)
            again = op[0] in ("rename", "move_out", "rmdir", "rmtree") and (op[1] in pacer.hot or any(h.startswith(op[1] + "/") for h in pacer.hot))
            if again or pacer.needs_drain(touches, names) or (not queued and r.random() < cfg.get("cut_p", 0.2)):
                flush()
                pacer.drained()
            rec = u.do(op)
            ops.append(list(op))
            seg.append(rec)
            pacer.mark(hot)
            if op[0] in ("rename", "move_in", "move_out"):
                boundary_moves += 1
            if reuse and op[0] == "rename" and rec["pre_kind"].get(op[1]) == "f" and r.random() < 0.4:
                # renamed, then deleted before the batch is cut (the destination's record carries Renamed|Removed), then a
                # new file - which may get the freed inode number
                follow = [("unlink", op[2]), ("create", op[2] + "n" if r.random() < 0.5 else op[1])]
                b.count("fsevents_rename_delete_create_sequences")
            if reuse and op[0] in ("unlink", "rmdir", "rmtree"):
                flush()
                pacer.drained()
        flush()
        # ---------------------------------------------------------------- oracles
        wit = {"platform": platform, "cfg": cfg, "ops": ops, "native": native_log[-12:], "stream": [fsrig.ev_desc(e) for e in stream][-40:]}
        if trap.records:
            b.violation(f"{platform}-exception-swallowed", f"an exception was logged and swallowed by the emitter: {trap.records[0][-300:]}", witness=dict(wit, log=trap.records[:2]), replay_spec=rs)
        # per-event scope / flavour / rename contract
        want_type = bytes if as_bytes else str
        for e in stream:
            if any(p_ and not isinstance(p_, want_type) for p_ in (e.src_path, e.dest_path)):
                b.violation(f"{platform}-wrong-path-type", f"watch scheduled with a {want_type.__name__} path delivered {fsrig.ev_desc(e)}", witness=wit, replay_spec=rs)
                break
        for e in stream:
            b.count("events_judged")
            for p in (e.src_path, e.dest_path):
                if not p:
                    continue
                x = adapter.rel_of(p)
                if x is None:
                    continue
                if not recursive and x.count("/") >= 1:
                    other = e.dest_path if p is e.src_path else e.src_path
                    ox = adapter.rel_of(other) if other else None
                    if platform == "fsevents" and e.event_type == "moved" and ox is not None and ox.count("/") == 0:
                        mech = "fsevents-nonrecursive-move-across-scope-carries-deep-path"
                    else:
                        mech = f"{platform}-nonrecursive-reports-below-children"
                    b.violation(mech, f"non-recursive watch delivered {fsrig.ev_desc(e)}", witness=wit, replay_spec=rs)
        if platform == "windows" and not cfg.get("split_rename"):
            for e in stream:
                if e.event_type == "moved" and not e.is_synthetic and (not e.src_path or not e.dest_path):
                    b.violation("windows-moved-event-without-both-paths", f"{fsrig.ev_desc(e)}", witness=wit, replay_spec=rs)
        # a delivered *Deleted event whose flavour the entry never had during the session (Windows: recorded finding)
        for e in stream:
            if e.event_type != "deleted" or e.is_synthetic:
                continue
            x = adapter.rel_of(e.src_path)
            if x is None or x == "":
                continue
            kinds_ever = u.ever_kinds.get(u.root_name + "/" + x, set())
            want_kind = "d" if e.is_directory else "f"
            if kinds_ever and want_kind not in kinds_ever:
                b.violation(f"{platform}-directory-removal-reported-as-file-deleted" if (platform == "windows" and not e.is_directory) else f"{platform}-wrong-flavour",
                            f"{type(e).__name__}({e.src_path}) but that entry was only ever a {'directory' if 'd' in kinds_ever else 'file'}", witness=wit, replay_spec=rs)
                break
        if n_batches >= 2 and boundary_moves >= 1:
            b.nontrivial([platform, cfg, ops])
        b.count("native_batches", n_batches)
        if len(b.samples) < 2 and n_batches >= 2:
            b.sample({"platform": platform, "recursive": recursive, "ops": ops[:12], "native_batches": native_log[:4], "delivered": [fsrig.ev_desc(e) for e in stream][:8]})
    finally:
        logging.getLogger().removeHandler(trap)
        logging.getLogger("fsevents").removeHandler(trap)
        u.cleanup()


# ------------------------------------------------------------------------------------------------ decoders
def run_decoders(b: Batch, r, n):
    from watchdog.observers.inotify_c import Inotify
    from watchdog.observers.winapi import _parse_event_buffer

    alphabet = "abXY.-_ é☃𝄞﻿中"
    for it in range(n):
        if b.expired():
            break
        nrec = r.randint(0, 6)
        # ---- inotify
        recs = []
        buf = b""
        for _ in range(nrec):
            ln = r.choice([0, 1, 2, 15, 16, 17, 31, 32, 255, r.randint(0, 255)])
            name = bytes(r.choice(b"abcxyz.\xff\xfe\xc3\xa9") for _ in range(ln))
            wd, mask, cookie = r.randint(1, 2**31 - 1), r.getrandbits(32), r.getrandbits(32)
            recs.append((wd, mask, cookie, name))
            buf += simkernel.pack(wd, mask, cookie, name, pad_to=r.choice([16, 16, 4, 1, 32]))
        try:
            got = list(Inotify._parse_event_buffer(buf))
        except Exception as e:  # noqa: BLE001
            got = f"raised {type(e).__name__}: {e}"
        b.case()
        b.count("decoder_buffers")
        b.count("decoder_records", nrec)
        if got != recs:
            b.violation("inotify-decoder-roundtrip", f"decoded {got!r} != encoded {recs!r}", witness={"buffer": buf.hex()}, replay_spec=None)
        if nrec >= 2:
            b.nontrivial(["ino", buf.hex()[:60], it])
        # ---- windows
        recs = []
        for _ in range(nrec):
            ln = r.choice([1, 1, 2, 3, 7, 8, 64, 255, 300, r.randint(1, 300)])
            if r.random() < 0.08:
                # relative paths of a recursive watch may be far longer than one component (up to 32767 units with
                # long-path support; the 64000-byte read buffer holds them)
                ln = r.choice([1023, 1024, 1025, 2047, 2048, 2049, 4000, r.randint(1000, 9000)])
                b.count("decoder_long_names")
            name = "".join(r.choice(alphabet) for _ in range(ln))
            recs.append((r.choice([1, 2, 3, 4, 5]), name))
        if nrec:
            data = platshim.pack_fni(recs, pad_words=r.choice([0, 1, 2, 3]), exact_last=r.random() < 0.5)
            raw = data + b"\0" * r.choice([0, 64])
            try:
                got = _parse_event_buffer(raw, len(data))
            except Exception as e:  # noqa: BLE001
                got = f"raised {type(e).__name__}: {e}"
            b.case()
            b.count("decoder_buffers")
            if got != recs:
                bad = [(g, w) for g, w in zip(got, recs) if g != w] if isinstance(got, list) else []
                if len(got) == len(recs) and bad and all(w[1].startswith("﻿") and g == (w[0], w[1][1:]) for g, w in bad):
                    mech = "winapi-decoder-strips-leading-bom"
                else:
                    mech = "winapi-decoder-roundtrip"
                b.violation(mech, f"decoded {([(a, n[:12]) for a, n in got][:4] if isinstance(got, list) else got)!r} != encoded {[(a, n[:12]) for a, n in recs][:4]!r}",
                            witness={"records": [(a, n) for a, n in recs], "got": got}, replay_spec=None)
            if nrec >= 2:
                b.nontrivial(["win", repr(recs)[:80], it])


def make_cfg(r, seed, platform):
    cfg = {"seed": seed, "base_filter": r.random() < 0.25, "recursive": r.random() < 0.7, "n_ops": r.randint(5, 18), "n_root": r.randint(1, 5), "n_out": r.randint(2, 4), "cut_p": r.choice([0.0, 0.2, 0.5])}
    if platform == "fsevents":
        cfg["sticky"] = r.random() < 0.35
        cfg["reuse"] = r.random() < 0.3
        cfg["bytes"] = r.random() < 0.25
    if platform == "windows":
        cfg["parent_mod"] = r.random() < 0.5
        cfg["split_rename"] = r.random() < 0.2
    return cfg


def plan(tier, seed, jobs):
    specs = []
    if tier == "quick":
        for j in range(4):
            specs.append({"kind": "decoders", "n": 3000, "seed": seed, "j": j, "budget_s": 50})
        for j in range(6):
            specs.append({"kind": "hist", "platform": "windows", "n": 150, "seed": seed, "j": j, "budget_s": 50})
        for j in range(6):
            specs.append({"kind": "hist", "platform": "fsevents", "n": 150, "seed": seed, "j": j, "budget_s": 50})
    else:
        for j in range(jobs):
            specs.append({"kind": "decoders", "n": 40000, "seed": seed, "j": j, "budget_s": 600})
        for j in range(jobs * 2):
            specs.append({"kind": "hist", "platform": "windows", "n": 4000, "seed": seed, "j": j, "budget_s": 800})
        for j in range(jobs * 2):
            specs.append({"kind": "hist", "platform": "fsevents", "n": 4000, "seed": seed, "j": j, "budget_s": 800})
    return specs


def run_batch(spec):
    b = Batch(spec)
    k32 = platshim.install_winapi()
    platshim.install_fsevents()
    k = spec["kind"]
    if k == "decoders":
        run_decoders(b, rng_for(spec["seed"], "C20d", spec["j"]), spec["n"])
    elif k == "hist":
        r = rng_for(spec["seed"], "C20", spec["platform"], spec["j"])
        for n in range(spec["n"]):
            if b.expired():
                break
            cfg = make_cfg(r, spec["seed"] * 1000003 + spec["j"] * 10007 + n, spec["platform"])
            run_history(b, spec["platform"], cfg, k32)
    elif k == "hist1":
        run_history(b, spec["platform"], spec["cfg"], k32)
    return b.to_dict()
