"""C05 - after unschedule/remove/stop returns the removed handler is never called again; the emitter has stopped.
Same engine as C04 (wdverif/apistress.py), biased to removals; only the C05-class rules decide here."""

from __future__ import annotations

from wdverif.props import c04

ID = "C05"
LEVEL = "exploration"
RULE = (
    "case = one trial of the C04 engine biased to removals (external and re-entrant unschedule / remove_handler_for_watch / "
    "unschedule_all / stop at every point of the stream; dispatcher held at each discovered line of dispatch_events while a removing "
    "call runs, removing thread held at each line of unschedule/remove/_remove_emitter while the dispatcher runs).  Non-trivial iff a "
    "removing call returned while >=1 event was queued or in dispatch (hold trials: the hold point was reached)."
)
ASSUMPTIONS = [
    "stamps are taken at the client boundary from one logical clock: handler entry, API return; a callback is judged only against "
    "removals whose return stamp precedes the callback's entry stamp with no re-adding call started in between",
    "emitters are scripted; 'emitter stopped' = is_alive() false and no queue_event after the removing call returned",
]
MINIMUMS = {"quick": {"removals_judged": 500, "hold_cases_reached": 40, "removals_with_queued_events": 200},
            "thorough": {"removals_judged": 30000, "hold_cases_reached": 600}}
WALL_CAP = c04.WALL_CAP


def plan(tier, seed, jobs):
    return c04.plan(tier, seed + 7, jobs)


def run_batch(spec):
    c04.BIAS_REMOVE = 1
    return c04.run_batch_for("C05", spec)
