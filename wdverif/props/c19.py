"""C19 - event paths keep the caller's path type and the entry's exact name, all backends."""

from __future__ import annotations

import os

from wdverif import fshist, fsrig
from wdverif.monitors import Batch, rng_for
from wdverif.props import c01

ID = "C19"
LEVEL = "exploration"
RULE = (
    "case = one paced history (C03 operation set, biased to renames of directories with children, move-in of trees, parent events) "
    "over names {a, e-acute, snowman, the undecodable bytes ff fe '.txt', fd} with the root given as str / bytes / pathlib.Path, "
    "absolute / relative (cwd=base) / trailing slash, on InotifyObserver (normal and full emitter) and PollingObserver.  Every non-empty "
    "src_path/dest_path of every delivered event is judged.  Non-trivial iff >=1 delivered path contains a non-ASCII or undecodable "
    "byte and the root is not a plain absolute str; distinct by (config, history)."
)
ASSUMPTIONS = [
    "expected path = root exactly as given to schedule() (str(Path) for pathlib) joined with the entry's real relative name; for the root "
    "itself the spelling without a trailing separator is accepted as well",
    "the entry must be one that existed at some time during the session (the harness's byte-level record of names)",
]
MINIMUMS = {"quick": {"paths_judged": 3000, "paths_with_special_bytes": 500}, "thorough": {"paths_judged": 200000}}
WALL_CAP = {"quick": 170, "thorough": 3000}

NAMES = ["a", "é", "☃", os.fsdecode(b"\xff\xfe.txt"), os.fsdecode(b"\xfd")]
BIAS = {"rename_dir": 6, "move_in": 4, "mkdir": 3, "makedirs": 2, "create": 3, "write": 2, "chmod": 1, "unlink": 1.5, "rename_file": 3,
        "rmdir": 1, "rmtree": 1, "move_out": 1.5, "rename_replace": 1}


def path_oracle(h, sess, seg_ops, evs, single):
    u = h.u
    root = u.root_name
    want_bytes = sess.as_bytes
    ever = {p[len(root) + 1:] for p in u.ever | set(u.m.t) if p.startswith(root + "/")} | set(sess.initial)
    for e in evs:
        for which, p in (("src_path", e.src_path), ("dest_path", e.dest_path)):
            if not p:
                continue
            h.c("paths_judged")
            special = any(b > 127 for b in os.fsencode(p))
            if special:
                h.c("paths_with_special_bytes")
            if isinstance(p, bytes) != want_bytes:
                h.v("C19", "wrong-path-type", f"{type(e).__name__}.{which} is {type(p).__name__} but the watch was scheduled with {'bytes' if want_bytes else 'str/Path'}: {p!r}")
                continue
            rel = sess.rel_of(p)
            if rel is None:
                h.v("C19", "path-not-under-root-as-given", f"{type(e).__name__}.{which} = {p!r} is not the scheduled root {sess.root_spelled!r} joined with a relative name")
                continue
            if rel != "" and rel not in ever:
                h.v("C19", "path-names-no-real-entry", f"{type(e).__name__}.{which} = {p!r}: no entry {rel!r} ever existed under the root (bytes: {os.fsencode(rel)!r})")


def make_cfg(r, seed, observer):
    cfg = {
        "seed": seed, "n_ops": r.randint(8, 22), "recursive": r.random() < 0.85, "full": observer == "inotify" and r.random() < 0.25,
        "bytes": False, "spelling": r.choice(["abs", "rel", "slash", "path", "relpath"]), "mode": r.choice(["plain", "plain", "small"]) if observer == "inotify" else "plain",
        "delay": 0.1, "probe_p": 0.0, "final_probes": False, "n_root": r.randint(2, 6), "n_out": r.randint(2, 4), "names": NAMES, "bias": BIAS,
        "observer": observer,
    }
    cfg["read_size"] = 300 if cfg["mode"] == "small" else None
    if r.random() < 0.4 and cfg["spelling"] in ("abs", "rel", "slash"):
        cfg["bytes"] = True
    return cfg


def plan(tier, seed, jobs):
    specs = []
    if tier == "quick":
        for j in range(jobs - 4):
            specs.append({"kind": "random", "n": 150, "seed": seed, "j": j, "budget_s": 50, "observer": "inotify"})
        for j in range(4):
            specs.append({"kind": "random", "n": 80, "seed": seed, "j": 100 + j, "budget_s": 50, "observer": "polling"})
    else:
        for j in range(jobs * 3):
            specs.append({"kind": "random", "n": 4000, "seed": seed, "j": j, "budget_s": 700, "observer": "inotify"})
        for j in range(jobs):
            specs.append({"kind": "random", "n": 2000, "seed": seed, "j": 100 + j, "budget_s": 700, "observer": "polling"})
    return specs


def run_batch(spec):
    b = Batch(spec)
    if spec["kind"] == "random":
        r = rng_for(spec["seed"], "C19", spec["j"])
        for n in range(spec["n"]):
            if b.expired():
                break
            cfg = make_cfg(r, spec["seed"] * 1000003 + spec["j"] * 10007 + n, spec["observer"])
            h = fshist.History(cfg).run(justify=path_oracle)
            nontriv = h.counts.get("paths_with_special_bytes", 0) >= 1 and not (cfg["spelling"] == "abs" and not cfg["bytes"])
            fshist.account(b, h, "C19", cfg, nontriv)
            b.add("configurations", f"{spec['observer']}:{cfg['spelling']}:{'bytes' if cfg['bytes'] else 'str'}:{'full' if cfg['full'] else 'normal'}")
    elif spec["kind"] == "history1":
        h = fshist.History(spec["cfg"]).run(justify=path_oracle)
        fshist.account(b, h, "C19", spec["cfg"], True)
    return b.to_dict()
