"""C19 - event paths keep the caller's path type and the entry's exact name, all backends."""

from __future__ import annotations

import os

from wdverif import fshist, fsrig
from wdverif.monitors import Batch, rng_for
from wdverif.props import c01

ID = "C19"
LEVEL = "exploration"
RULE = (
    "case = one paced history (C03 operation set, biased to renames of directories with children, move-in of trees, parent events) "
    "over names {a, e-acute, snowman, the undecodable bytes ff fe '.txt', fd} with the root given as str / bytes / pathlib.Path, "
    "absolute / relative (cwd=base) / trailing slash, on InotifyObserver (normal and full emitter) and PollingObserver.  Every non-empty "
    "src_path/dest_path of every delivered event is judged.  Non-trivial iff >=1 delivered path contains a non-ASCII or undecodable "
    "byte and the root is not a plain absolute str; distinct by (config, history)."
)
ASSUMPTIONS = [
    "expected path = root exactly as given to schedule() (str(Path) for pathlib) joined with the entry's real relative name; for the root "
    "itself the spelling without a trailing separator is accepted as well",
    "the entry must be one that existed at some time during the session (the harness's byte-level record of names)",
]
MINIMUMS = {"quick": {"paths_judged": 3000, "paths_with_special_bytes": 500, "dual_watch_cases": 10}, "thorough": {"paths_judged": 200000}}
WALL_CAP = {"quick": 170, "thorough": 3000}

NAMES = ["a", "é", "☃", os.fsdecode(b"\xff\xfe.txt"), os.fsdecode(b"\xfd")]
# names that mean something to globbing, regexes, shells and line-oriented code; a name of 200 bytes
NAMES_ODD = ["a", "*[b]?", "n\nl", " ", "x" * 200, "é"]
BIAS = {"rename_dir": 6, "move_in": 4, "mkdir": 3, "makedirs": 2, "create": 3, "write": 2, "chmod": 1, "unlink": 1.5, "rename_file": 3,
        "rmdir": 1, "rmtree": 1, "move_out": 1.5, "rename_replace": 1}


def path_oracle(h, sess, seg_ops, evs, single):
    u = h.u
    root = u.root_name
    want_bytes = sess.as_bytes
    ever = {p[len(root) + 1:] for p in u.ever | set(u.m.t) if p.startswith(root + "/")} | set(sess.initial)
    for e in evs:
        for which, p in (("src_path", e.src_path), ("dest_path", e.dest_path)):
            if not p:
                continue
            h.c("paths_judged")
            special = any(b > 127 for b in os.fsencode(p))
            if special:
                h.c("paths_with_special_bytes")
            if isinstance(p, bytes) != want_bytes:
                h.v("C19", "wrong-path-type", f"{type(e).__name__}.{which} is {type(p).__name__} but the watch was scheduled with {'bytes' if want_bytes else 'str/Path'}: {p!r}")
                continue
            rel = sess.rel_of(p)
            if rel is None:
                h.v("C19", "path-not-under-root-as-given", f"{type(e).__name__}.{which} = {p!r} is not the scheduled root {sess.root_spelled!r} joined with a relative name")
                continue
            if h.cfg.get("pacing", True) is False:
                # unpaced history: synthetic events are computed from the disk at emit time and renames race the reader's
                # path book-keeping, so only the type and the root prefix are judged there
                continue
            if rel != "" and rel not in ever:
                h.v("C19", "path-names-no-real-entry", f"{type(e).__name__}.{which} = {p!r}: no entry {rel!r} ever existed under the root (bytes: {os.fsencode(rel)!r})")


def make_cfg(r, seed, observer):
    cfg = {
        "seed": seed, "n_ops": r.randint(8, 22), "recursive": r.random() < 0.85, "full": observer == "inotify" and r.random() < 0.25,
        "bytes": False, "spelling": r.choice(["abs", "rel", "slash", "path", "relpath", "dot", "dotdot"]), "mode": r.choice(["plain", "plain", "small"]) if observer == "inotify" else "plain",
        "delay": 0.1, "probe_p": 0.0, "final_probes": False, "n_root": r.randint(2, 6), "n_out": r.randint(2, 4), "names": NAMES if r.random() < 0.7 else NAMES_ODD, "bias": BIAS,
        "observer": observer,
    }
    cfg["read_size"] = 300 if cfg["mode"] == "small" else None
    if r.random() < 0.4 and cfg["spelling"] in ("abs", "rel", "slash"):
        cfg["bytes"] = True
    if observer == "inotify" and r.random() < 0.3:
        # unpaced bursts (files created inside directories the reader has not reached yet): path soundness does not depend on pacing
        cfg["pacing"] = False
        cfg["bias"] = dict(BIAS, makedirs=6, create=6, mkdir=4)
    return cfg


class _Col:
    def __init__(self):
        self.events = []

    def dispatch(self, e):
        self.events.append(e)


def run_dual(b: Batch, r, observer):
    """Two handlers scheduled on the SAME directory of one observer with different spellings / types of the path: each must
    receive paths in its own spelling."""
    import random
    import time

    from wdverif.fsrig import OpGen, Universe

    u = Universe(random.Random(r.random()), names=NAMES)
    cwd = os.getcwd()
    try:
        u.populate(3, 3)
        root_abs = u.abs(u.root_name)
        os.chdir(u.base)
        spell = [root_abs, os.fsencode(root_abs), u.root_name, os.fsencode(u.root_name), root_abs + "/"]
        a, c = r.sample(spell, 2)
        if observer == "inotify":
            from watchdog.observers.inotify import InotifyObserver

            obs = InotifyObserver()
        else:
            from watchdog.observers.polling import PollingObserver

            obs = PollingObserver(timeout=0.02)
        cols = [_Col(), _Col()]
        rec = r.random() < 0.8
        obs.schedule(cols[0], a, recursive=rec)
        obs.schedule(cols[1], c, recursive=rec)
        obs.start()
        gen = OpGen(u, random.Random(r.random()), bias=BIAS)
        from wdverif.fsrig import Pacer, op_footprint

        pacer = Pacer()
        for _ in range(r.randint(4, 10)):
            op = gen.next_op()
            if op is None:
                break
            touches, names, hot = op_footprint(u, op)
            if pacer.needs_drain(touches, names):
                time.sleep(0.25 if observer == "inotify" else 0.15)
                pacer.drained()
            u.do(op)
            pacer.mark(hot)
        time.sleep(0.3 if observer == "inotify" else 0.2)
        obs.stop()
        obs.join(10)
        b.case()
        for col, given in zip(cols, (a, c)):
            want_bytes = isinstance(given, bytes)
            sep = b"/" if want_bytes else "/"
            base = given.rstrip(sep)
            for e in col.events:
                for which, pth in (("src_path", e.src_path), ("dest_path", e.dest_path)):
                    if not pth:
                        continue
                    b.count("paths_judged")
                    b.count("dual_watch_paths_judged")
                    if isinstance(pth, bytes) != want_bytes:
                        b.violation("wrong-path-type", f"two watches on one directory ({a!r} and {c!r}): the handler scheduled with {given!r} received {type(e).__name__}.{which} = {pth!r}",
                                    witness={"spellings": [repr(a), repr(c)], "observer": observer})
                    elif not (pth == base or pth.startswith(base + sep)):
                        b.violation("path-not-under-root-as-given", f"two watches on one directory ({a!r} and {c!r}): the handler scheduled with {given!r} received {which} = {pth!r}",
                                    witness={"spellings": [repr(a), repr(c)], "observer": observer})
        b.count("dual_watch_cases")
        b.nontrivial(["dual", repr(a), repr(c), observer, r.random()])
    finally:
        os.chdir(cwd)
        u.cleanup()


def plan(tier, seed, jobs):
    specs = []
    if tier == "quick":
        for j in range(jobs - 4):
            specs.append({"kind": "random", "n": 150, "seed": seed, "j": j, "budget_s": 50, "observer": "inotify"})
        for j in range(4):
            specs.append({"kind": "random", "n": 80, "seed": seed, "j": 100 + j, "budget_s": 50, "observer": "polling"})
        for j in range(4):
            specs.append({"kind": "dual", "n": 12, "seed": seed, "j": j, "budget_s": 50})
    else:
        for j in range(jobs):
            specs.append({"kind": "dual", "n": 300, "seed": seed, "j": j, "budget_s": 700})
        for j in range(jobs * 3):
            specs.append({"kind": "random", "n": 4000, "seed": seed, "j": j, "budget_s": 700, "observer": "inotify"})
        for j in range(jobs):
            specs.append({"kind": "random", "n": 2000, "seed": seed, "j": 100 + j, "budget_s": 700, "observer": "polling"})
    return specs


def run_batch(spec):
    b = Batch(spec)
    if spec["kind"] == "random":
        r = rng_for(spec["seed"], "C19", spec["j"])
        for n in range(spec["n"]):
            if b.expired():
                break
            cfg = make_cfg(r, spec["seed"] * 1000003 + spec["j"] * 10007 + n, spec["observer"])
            h = fshist.History(cfg).run(justify=path_oracle)
            nontriv = h.counts.get("paths_with_special_bytes", 0) >= 1 and not (cfg["spelling"] == "abs" and not cfg["bytes"])
            fshist.account(b, h, "C19", cfg, nontriv)
            b.add("configurations", f"{spec['observer']}:{cfg['spelling']}:{'bytes' if cfg['bytes'] else 'str'}:{'full' if cfg['full'] else 'normal'}")
    elif spec["kind"] == "dual":
        r = rng_for(spec["seed"], "C19d", spec["j"])
        for n in range(spec["n"]):
            if b.expired():
                break
            run_dual(b, r, "inotify" if n % 3 else "polling")
    elif spec["kind"] == "history1":
        h = fshist.History(spec["cfg"]).run(justify=path_oracle)
        fshist.account(b, h, "C19", spec["cfg"], True)
    return b.to_dict()
