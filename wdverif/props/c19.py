"""C19 - event paths keep the caller's path type and the entry's exact name, all backends."""

from __future__ import annotations

import os

from wdverif import fshist, fsrig
from wdverif.monitors import Batch, rng_for
from wdverif.props import c01

ID = "C19"
LEVEL = "exploration"
RULE = (
    "case = one paced history (C03 operation set, biased to renames of directories with children, move-in of trees, parent events) "
    "over names {a, e-acute, snowman, the undecodable bytes ff fe '.txt', fd} with the root given as str / bytes / pathlib.Path, "
    "absolute / relative (cwd=base) / trailing slash, on InotifyObserver (normal and full emitter) and PollingObserver.  Every non-empty "
    "src_path/dest_path of every delivered event is judged.  Non-trivial iff >=1 delivered path contains a non-ASCII or undecodable "
    "byte and the root is not a plain absolute str; distinct by (config, history)."
)
ASSUMPTIONS = [
    "expected path = root exactly as given to schedule() (str(Path) for pathlib) joined with the entry's real relative name; for the root "
    "itself the spelling without a trailing separator is accepted as well",
    "the entry must be one that existed at some time during the session (the harness's byte-level record of names)",
]
MINIMUMS = {"quick": {"paths_judged": 3000, "paths_with_special_bytes": 500, "dual_watch_cases": 10, "linked_probes_judged": 20, "linked_link_renames": 8, "paths_judged_under_ascii_filesystem_encoding": 500}, "thorough": {"paths_judged": 200000}}
WALL_CAP = {"quick": 170, "thorough": 3000}

NAMES = ["a", "é", "☃", os.fsdecode(b"\xff\xfe.txt"), os.fsdecode(b"\xfd")]
# names that mean something to globbing, regexes, shells and line-oriented code; a name of 200 bytes
NAMES_ODD = ["a", "*[b]?", "n\nl", " ", "x" * 200, "é"]
# names that are string prefixes of each other (a rename of the shorter must not touch the book-keeping of the longer)
NAMES_PREFIX = ["a", "ab", "é", "é☃", os.fsdecode(b"\xfd"), os.fsdecode(b"\xfd\xff")]
# a worker with these variables has the filesystem encoding "ascii": every non-ASCII byte of a name - also of a name that is valid
# UTF-8 - must come back surrogate-escaped, so that os.fsencode(event path) names the entry
ASCII_ENV = {"LC_ALL": "C", "LANG": "C", "PYTHONUTF8": "0", "PYTHONCOERCECLOCALE": "0"}
BIAS = {"rename_dir": 6, "move_in": 4, "mkdir": 3, "makedirs": 2, "create": 3, "write": 2, "chmod": 1, "unlink": 1.5, "rename_file": 3,
        "rmdir": 1, "rmtree": 1, "move_out": 1.5, "rename_replace": 1}


def path_oracle(h, sess, seg_ops, evs, single):
    u = h.u
    root = u.root_name
    want_bytes = sess.as_bytes
    ever = {p[len(root) + 1:] for p in u.ever | set(u.m.t) if p.startswith(root + "/")} | set(sess.initial)
    for e in evs:
        for which, p in (("src_path", e.src_path), ("dest_path", e.dest_path)):
            if not p:
                continue
            h.c("paths_judged")
            try:
                os.fsencode(p)
            except UnicodeEncodeError:
                h.v("C19", "path-not-convertible-with-the-filesystem-encoding", f"{type(e).__name__}.{which} = {p!r} cannot be converted back with the filesystem "
                    f"encoding ({__import__('sys').getfilesystemencoding()}): it does not name the entry")
                continue
            special = any(b > 127 for b in os.fsencode(p))
            if special:
                h.c("paths_with_special_bytes")
            if isinstance(p, bytes) != want_bytes:
                h.v("C19", "wrong-path-type", f"{type(e).__name__}.{which} is {type(p).__name__} but the watch was scheduled with {'bytes' if want_bytes else 'str/Path'}: {p!r}")
                continue
            rel = sess.rel_of(p)
            if rel is None:
                h.v("C19", "path-not-under-root-as-given", f"{type(e).__name__}.{which} = {p!r} is not the scheduled root {sess.root_spelled!r} joined with a relative name")
                continue
            if h.cfg.get("pacing", True) is False:
                # unpaced history: synthetic events are computed from the disk at emit time and renames race the reader's
                # path book-keeping, so only the type and the root prefix are judged there
                continue
            if rel != "" and rel not in ever:
                h.v("C19", "path-names-no-real-entry", f"{type(e).__name__}.{which} = {p!r}: no entry {rel!r} ever existed under the root (bytes: {os.fsencode(rel)!r})")


def make_cfg(r, seed, observer):
    cfg = {
        "seed": seed, "n_ops": r.randint(8, 22), "recursive": r.random() < 0.85, "full": observer == "inotify" and r.random() < 0.25,
        "bytes": False, "spelling": r.choice(["abs", "rel", "slash", "path", "relpath", "dot", "dotdot"]), "mode": r.choice(["plain", "plain", "small"]) if observer == "inotify" else "plain",
        "delay": 0.1, "probe_p": 0.0, "final_probes": False, "n_root": r.randint(2, 6), "n_out": r.randint(2, 4), "names": r.choice([NAMES, NAMES, NAMES, NAMES_PREFIX, NAMES_ODD]), "bias": BIAS,
        "observer": observer,
    }
    cfg["read_size"] = 300 if cfg["mode"] == "small" else None
    if r.random() < 0.4 and cfg["spelling"] in ("abs", "rel", "slash"):
        cfg["bytes"] = True
    if observer == "inotify" and r.random() < 0.3:
        # unpaced bursts (files created inside directories the reader has not reached yet): path soundness does not depend on pacing
        cfg["pacing"] = False
        cfg["bias"] = dict(BIAS, makedirs=6, create=6, mkdir=4)
    return cfg


class _Col:
    def __init__(self):
        self.events = []

    def dispatch(self, e):
        self.events.append(e)


def run_dual(b: Batch, r, observer):
    """Two handlers scheduled on the SAME directory of one observer with different spellings / types of the path: each must
    receive paths in its own spelling."""
    import random
    import time

    from wdverif.fsrig import OpGen, Universe

    u = Universe(random.Random(r.random()), names=NAMES)
    cwd = os.getcwd()
    try:
        u.populate(3, 3)
        root_abs = u.abs(u.root_name)
        os.chdir(u.base)
        spell = [root_abs, os.fsencode(root_abs), u.root_name, os.fsencode(u.root_name), root_abs + "/"]
        a, c = r.sample(spell, 2)
        if observer == "inotify":
            from watchdog.observers.inotify import InotifyObserver

            obs = InotifyObserver()
        else:
            from watchdog.observers.polling import PollingObserver

            obs = PollingObserver(timeout=0.02)
        cols = [_Col(), _Col()]
        rec = r.random() < 0.8
        obs.schedule(cols[0], a, recursive=rec)
        obs.schedule(cols[1], c, recursive=rec)
        obs.start()
        gen = OpGen(u, random.Random(r.random()), bias=BIAS)
        from wdverif.fsrig import Pacer, op_footprint

        pacer = Pacer()
        for _ in range(r.randint(4, 10)):
            op = gen.next_op()
            if op is None:
                break
            touches, names, hot = op_footprint(u, op)
            if pacer.needs_drain(touches, names):
                time.sleep(0.25 if observer == "inotify" else 0.15)
                pacer.drained()
            u.do(op)
            pacer.mark(hot)
        time.sleep(0.3 if observer == "inotify" else 0.2)
        obs.stop()
        obs.join(10)
        b.case()
        for col, given in zip(cols, (a, c)):
            want_bytes = isinstance(given, bytes)
            sep = b"/" if want_bytes else "/"
            base = given.rstrip(sep)
            for e in col.events:
                for which, pth in (("src_path", e.src_path), ("dest_path", e.dest_path)):
                    if not pth:
                        continue
                    b.count("paths_judged")
                    b.count("dual_watch_paths_judged")
                    if isinstance(pth, bytes) != want_bytes:
                        b.violation("wrong-path-type", f"two watches on one directory ({a!r} and {c!r}): the handler scheduled with {given!r} received {type(e).__name__}.{which} = {pth!r}",
                                    witness={"spellings": [repr(a), repr(c)], "observer": observer})
                    elif not (pth == base or pth.startswith(base + sep)):
                        b.violation("path-not-under-root-as-given", f"two watches on one directory ({a!r} and {c!r}): the handler scheduled with {given!r} received {which} = {pth!r}",
                                    witness={"spellings": [repr(a), repr(c)], "observer": observer})
        b.count("dual_watch_cases")
        b.nontrivial(["dual", repr(a), repr(c), observer, r.random()])
    finally:
        os.chdir(cwd)
        u.cleanup()


def run_linked(b: Batch, r):
    """follow_symlink=True x recursive x a symbolic link (inside the tree) to a directory outside it.  The link itself and real
    directories above it are renamed inside the tree; after every rename a file with a never-used name is created in every directory
    of the target.  The reader resolves a record's path when it reads it, in kernel order, so whatever the timing the only correct path of
    such a file is root / <the link's CURRENT name> / <relative name below the target>: a path naming the link's earlier name names an
    entry that never existed.  Events not yet delivered when the wait ends are counted, never judged (coverage is C02's business)."""
    import random
    import shutil
    import tempfile
    import threading
    import time

    from watchdog.observers.inotify import InotifyObserver

    base = tempfile.mkdtemp(prefix="wdv-c19l-")
    obs = None
    try:
        names = [n for n in NAMES if n != NAMES[0]] + ["b", "c"]
        r.shuffle(names)
        as_bytes = r.random() < 0.4
        conv = os.fsencode if as_bytes else (lambda x: x)
        root = os.path.join(base, "root")
        target = os.path.join(base, "outside", "t")
        os.makedirs(root)
        tdirs = [""]  # directories of the target, relative to it
        os.makedirs(target)
        for d in range(r.randint(0, 2)):
            parent = r.choice(tdirs)
            rel = (parent + "/" if parent else "") + f"s{d}"
            os.mkdir(os.path.join(target, rel))
            tdirs.append(rel)
        holders = ["", "h0", "h1"]  # real directories of the tree that may hold the link
        os.mkdir(os.path.join(root, "h0"))
        os.mkdir(os.path.join(root, "h1"))
        holder = r.choice(holders)
        link_name = names.pop()
        link_rel = (holder + "/" if holder else "") + link_name
        os.symlink(target, os.path.join(root, link_rel), target_is_directory=True)
        lock = threading.Lock()
        got = []

        class H:
            def dispatch(self, e):
                with lock:
                    got.append(e)

        try:
            obs = InotifyObserver(timeout=0.2)
            obs.schedule(H(), conv(root), recursive=True, follow_symlink=True)
            obs.start()
        except OSError as e:
            import errno

            if e.errno in (errno.EMFILE, errno.ENFILE, errno.ENOSPC):
                b.count("cases_skipped_for_lack_of_inotify_instances")
                obs = None
                return
            raise
        uniq = [0]
        script = []

        def probe_round():
            want = {}
            for d in tdirs:
                uniq[0] += 1
                nm = f"p{uniq[0]}" + r.choice(["", names[0]])
                open(os.path.join(target, d, nm) if d else os.path.join(target, nm), "w").close()
                want[nm] = conv(os.path.join(root, link_rel, d, nm) if d else os.path.join(root, link_rel, nm))
            end = time.monotonic() + 6.0
            while time.monotonic() < end:
                with lock:
                    seen = {os.path.basename(os.fsdecode(e.src_path)) for e in got if type(e).__name__ == "FileCreatedEvent"}
                if set(want) <= seen:
                    break
                time.sleep(0.02)
            with lock:
                evs = list(got)
            for nm, exp in want.items():
                hits = [e for e in evs for pth in (e.src_path, e.dest_path) if pth and os.path.basename(os.fsdecode(pth)) == nm]
                if not hits:
                    b.count("linked_probes_not_delivered_in_time")
                    continue
                b.count("linked_probes_judged")
                for e in hits:
                    for which, pth in (("src_path", e.src_path), ("dest_path", e.dest_path)):
                        if not pth or os.path.basename(os.fsdecode(pth)) != nm:
                            continue
                        b.count("paths_judged")
                        b.count("linked_paths_judged")
                        if isinstance(pth, bytes) != as_bytes:
                            b.violation("wrong-path-type", f"followed link: {type(e).__name__}.{which} = {pth!r} for a {'bytes' if as_bytes else 'str'} root",
                                        witness={"script": script})
                        elif pth != exp:
                            b.violation("path-names-no-real-entry", f"followed link: {type(e).__name__}.{which} = {pth!r} but the only path of that entry under the root is {exp!r} "
                                        f"(the link is now {link_rel!r})", witness={"script": script, "bytes": as_bytes})

        time.sleep(0.05)
        probe_round()
        for step in range(r.randint(1, 4)):
            kind = r.choice(["link", "link", "holder", "mkdir"])
            if kind == "link" or (kind == "holder" and not holder):
                new_holder = r.choice(holders)
                new_rel = (new_holder + "/" if new_holder else "") + (names.pop() if names else f"l{step}")
                os.rename(os.path.join(root, link_rel), os.path.join(root, new_rel))
                script.append(["rename-link", link_rel, new_rel])
                holder, link_rel = new_holder, new_rel
                b.count("linked_link_renames")
            elif kind == "holder":
                new_holder = f"h{step + 2}"
                os.rename(os.path.join(root, holder), os.path.join(root, new_holder))
                script.append(["rename-holder", holder, new_holder])
                holders[holders.index(holder)] = new_holder
                link_rel = new_holder + "/" + link_rel.split("/", 1)[1]
                holder = new_holder
                b.count("linked_holder_renames")
            else:
                parent = r.choice(tdirs)
                rel = (parent + "/" if parent else "") + f"n{step}"
                os.mkdir(os.path.join(target, rel))
                script.append(["mkdir-in-target", rel])
                tdirs.append(rel)
                time.sleep(0.3)  # the new directory gets its watch when the reader has seen its creation (C01's pacing condition)
            if r.random() < 0.5:
                time.sleep(r.choice([0.0, 0.05, 0.3]))
            probe_round()
        b.case()
        b.count("linked_cases")
        b.nontrivial(["linked", as_bytes, script])
    finally:
        if obs is not None:
            obs.stop()
            obs.join(10)
        shutil.rmtree(base, ignore_errors=True)


def plan(tier, seed, jobs):
    specs = []
    if tier == "quick":
        for j in range(jobs - 4):
            specs.append({"kind": "random", "n": 150, "seed": seed, "j": j, "budget_s": 50, "observer": "inotify"})
        for j in range(4):
            specs.append({"kind": "random", "n": 80, "seed": seed, "j": 100 + j, "budget_s": 50, "observer": "polling"})
        for j in range(4):
            specs.append({"kind": "dual", "n": 12, "seed": seed, "j": j, "budget_s": 50})
        for j in range(2):
            specs.append({"kind": "linked", "n": 14, "seed": seed, "j": j, "budget_s": 50})
        specs.append({"kind": "random", "n": 60, "seed": seed, "j": 200, "budget_s": 50, "observer": "inotify", "env": ASCII_ENV, "ascii": True})
        specs.append({"kind": "random", "n": 40, "seed": seed, "j": 201, "budget_s": 50, "observer": "polling", "env": ASCII_ENV, "ascii": True})
    else:
        for j in range(jobs):
            specs.append({"kind": "dual", "n": 300, "seed": seed, "j": j, "budget_s": 700})
        for j in range(jobs):
            specs.append({"kind": "linked", "n": 250, "seed": seed, "j": j, "budget_s": 700})
        for j in range(4):
            specs.append({"kind": "random", "n": 2000, "seed": seed, "j": 200 + j, "budget_s": 700, "observer": "inotify" if j < 3 else "polling", "env": ASCII_ENV, "ascii": True})
        for j in range(jobs * 3):
            specs.append({"kind": "random", "n": 4000, "seed": seed, "j": j, "budget_s": 700, "observer": "inotify"})
        for j in range(jobs):
            specs.append({"kind": "random", "n": 2000, "seed": seed, "j": 100 + j, "budget_s": 700, "observer": "polling"})
    return specs


def run_batch(spec):
    b = Batch(spec)
    if spec["kind"] == "random":
        r = rng_for(spec["seed"], "C19", spec["j"])
        if spec.get("ascii"):
            import sys

            if sys.getfilesystemencoding().lower() in ("utf-8", "utf8"):
                b.inconc("C19: the worker meant to run with a non-UTF-8 filesystem encoding runs with " + sys.getfilesystemencoding())
                return b.to_dict()
        for n in range(spec["n"]):
            if b.expired():
                break
            cfg = make_cfg(r, spec["seed"] * 1000003 + spec["j"] * 10007 + n, spec["observer"])
            if spec.get("ascii"):
                # the same byte names, spelled the way this interpreter's filesystem encoding spells them
                cfg["names"] = [os.fsdecode(n.encode("utf-8", "surrogateescape")) for n in cfg["names"]]
            h = fshist.History(cfg).run(justify=path_oracle)
            nontriv = h.counts.get("paths_with_special_bytes", 0) >= 1 and not (cfg["spelling"] == "abs" and not cfg["bytes"])
            fshist.account(b, h, "C19", cfg, nontriv)
            if spec.get("ascii"):
                b.count("paths_judged_under_ascii_filesystem_encoding", h.counts.get("paths_judged", 0))
            b.add("configurations", f"{spec['observer']}:{cfg['spelling']}:{'bytes' if cfg['bytes'] else 'str'}:{'full' if cfg['full'] else 'normal'}")
    elif spec["kind"] == "dual":
        r = rng_for(spec["seed"], "C19d", spec["j"])
        for n in range(spec["n"]):
            if b.expired():
                break
            run_dual(b, r, "inotify" if n % 3 else "polling")
    elif spec["kind"] == "linked":
        r = rng_for(spec["seed"], "C19l", spec["j"])
        for n in range(spec["n"]):
            if b.expired():
                break
            run_linked(b, r)
    elif spec["kind"] == "history1":
        h = fshist.History(spec["cfg"]).run(justify=path_oracle)
        fshist.account(b, h, "C19", spec["cfg"], True)
    return b.to_dict()
