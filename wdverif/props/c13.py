"""C13 - the registry stays consistent over any call sequence; failed calls leave no trace.

Single-threaded call sequences against BaseObserver(ScriptedEmitter) with an emitter construction / on_thread_start
failure injected at every opportunity; after every call the observer is audited against a reference map:
emitters reported == scheduled watches, one emitter per distinct watch, is_alive() == started, a marker event queued
per watch key reaches exactly the reference handler set (so a handler whose schedule() raised is never called),
and the call raised iff the reference says so.
"""

from __future__ import annotations

import itertools
import threading
import time

from wdverif import apirig
from wdverif.monitors import Batch, rng_for

ID = "C13"
LEVEL = "fault_enumeration"
RULE = (
    "case = (API call sequence over 5 watch keys {(/p1,nonrec),(/p1,rec),(/p1,nonrec,filter),(/p1,nonrec,empty filter),(/p2,rec)} x 2 handlers x 7 call kinds, "
    "fault position) - all sequences up to length 3 (thorough 4) with a failure injected at every emitter-construction / "
    "on_thread_start opportunity, plus random sequences up to 15 calls.  Non-trivial iff >=2 distinct watches are touched "
    "or an injected failure fired; distinct by (sequence, fault position)."
)
ASSUMPTIONS = [
    "emitters are scripted (BaseObserver(ScriptedEmitter)); paths need not exist; the same sequences run against the real inotify "
    "and polling emitters in C06/C12",
    "reference semantics of documented failures: a raising unschedule/remove_handler_for_watch is a no-op, add_handler_for_watch "
    "registers even without emitter, stop() is an unschedule_all(), a start() that raises has removed exactly the failing emitter "
    "and leaves the observer un-started (a retried start() then starts the remaining emitters)",
    "start() is not called twice on a running observer nor after stop() (threading.Thread rules), 'stop' is stop()+join()",
]
MINIMUMS = {"quick": {"call_audits": 10000, "marker_audits": 5000, "faults_fired": 500}, "thorough": {"call_audits": 500000}}
WALL_CAP = {"quick": 150, "thorough": 3000}

KEYS = ["K1", "K2", "K3", "K4", "K5"]
HANDLERS = ["h1", "h2"]


def key_args(k):
    from watchdog.events import FileModifiedEvent

    return {"K1": ("/p1", False, None), "K2": ("/p1", True, None), "K3": ("/p1", False, [FileModifiedEvent]),
            "K4": ("/p1", False, []), "K5": ("/p2", True, None)}[k]


def mk_watch(k):
    from watchdog.observers.api import ObservedWatch

    p, r, f = key_args(k)
    return ObservedWatch(p, recursive=r, event_filter=f)


CALLS = (
    [("schedule", h, k) for h in HANDLERS for k in KEYS]
    + [("unschedule", k) for k in KEYS]
    + [("add_handler", h, k) for h in HANDLERS for k in KEYS]
    + [("remove_handler", h, k) for h in HANDLERS for k in KEYS]
    + [("unschedule_all",), ("start",), ("stop",)]
)


EXTRA_CALLS = [("selfstop", k) for k in ("K1", "K2", "K5")] + [("schedule_follow", h, k) for h in HANDLERS for k in ("K1", "K5")]


def valid(seq):
    state = "new"
    for c in seq:
        if c[0] == "start":
            if state != "new":
                return False
            state = "running"
        elif c[0] == "stop":
            # stop() may be repeated: each call is an unschedule_all() (stop(); schedule(); stop() must leave nothing behind)
            state = "stopped"
    return True


class Run:
    def __init__(self, fail_at=()):
        from watchdog.observers.api import BaseObserver

        self.plan = apirig.FaultPlan(fail_at)
        self.emitters_made = []
        self.obs = BaseObserver(apirig.make_scripted_emitter(self.plan, self.emitters_made), timeout=0.05)
        self.h = {n: apirig.RecHandler(n) for n in HANDLERS}
        self.ref = apirig.RefModel()
        self.watches = {k: mk_watch(k) for k in KEYS}
        self.marker_n = 0
        # a second observer of the same class lives next to the first one, with one fixed registration: nothing the first one
        # is told may touch it, and nothing dispatched by either may reach the other's handlers
        self.obs2 = BaseObserver(apirig.make_scripted_emitter(apirig.FaultPlan(()), []), timeout=0.05)
        self.h_other = apirig.RecHandler("other")
        self.w_other = self.obs2.schedule(self.h_other, "/p1", recursive=False)
        self.obs2.start()

    def key_of(self, watch):
        for k, w in self.watches.items():
            if w == watch:
                return k
        return None

    def do(self, call):
        """Execute one call on the real observer; update the reference; return list of discrepancies."""
        obs, ref = self.obs, self.ref
        fired0, log0 = len(self.plan.fired), len(self.plan.log)
        exc = None
        try:
            if call[0] == "schedule":
                p, r, f = key_args(call[2])
                obs.schedule(self.h[call[1]], p, recursive=r, event_filter=f)
            elif call[0] == "unschedule":
                # the emitter's own stop hook may fail (e.g. a failing close): the watch must be gone all the same
                self.plan.arm_stop = True
                try:
                    obs.unschedule(self.watches[call[1]])
                finally:
                    self.plan.arm_stop = False
            elif call[0] == "add_handler":
                obs.add_handler_for_watch(self.h[call[1]], self.watches[call[2]])
            elif call[0] == "remove_handler":
                obs.remove_handler_for_watch(self.h[call[1]], self.watches[call[2]])
            elif call[0] == "unschedule_all":
                obs.unschedule_all()
            elif call[0] == "selfstop":
                # the emitter of that watch ends by itself (as after its root was deleted); nobody has unscheduled anything
                for e in list(obs.emitters):
                    if e.watch == self.watches[call[1]]:
                        e.stop()
                        if e.is_alive():
                            e.join(5)
            elif call[0] == "schedule_follow":
                # the same path again, now asking for symbolic links to be followed: an equal watch (the flag is not part of
                # what distinguishes watches) - one emitter, as for any other equal watch
                p, r, f = key_args(call[2])
                obs.schedule(self.h[call[1]], p, recursive=r, event_filter=f, follow_symlink=True)
            elif call[0] == "start":
                obs.start()
            elif call[0] == "stop":
                obs.stop()
                if ref.state == "running":
                    obs.join(10)
        except BaseException as e:  # noqa: BLE001
            exc = e
        fired = self.plan.fired[fired0:]
        opp = self.plan.log[log0:]
        # ---- reference transition
        want_exc = None
        dead = self.__dict__.setdefault("selfstopped", set())
        if call[0] == "selfstop":
            if call[1] in ref.emitters:
                ref.emitters[call[1]] = False  # still registered, no longer alive (and never again: its stop flag is set)
                dead.add(call[1])
        if call[0] == "unschedule" and call[1] in ref.emitters:
            dead.discard(call[1])
        if call[0] in ("unschedule_all", "stop"):
            dead.clear()
        if call[0] in ("schedule", "schedule_follow"):
            _, h, k = call
            if k in ref.emitters:
                ref.handlers.setdefault(k, set()).add(h)
            elif fired:
                want_exc = apirig.InjectedFailure
            else:
                ref.emitters[k] = ref.state == "running"
                ref.handlers.setdefault(k, set()).add(h)
        elif call[0] == "unschedule":
            k = call[1]
            if k not in ref.emitters:
                want_exc = KeyError
            else:
                ref.emitters.pop(k)
                ref.handlers.pop(k, None)
                if fired:
                    want_exc = apirig.InjectedFailure  # raised by the stop hook; the unscheduling itself has happened
        elif call[0] == "add_handler":
            ref.handlers.setdefault(call[2], set()).add(call[1])
        elif call[0] == "remove_handler":
            _, h, k = call
            if h not in ref.handlers.get(k, ()):
                want_exc = KeyError
            else:
                ref.handlers[k].discard(h)
        elif call[0] == "unschedule_all":
            ref.handlers.clear()
            ref.emitters.clear()
        elif call[0] == "start":
            if fired:
                want_exc = apirig.InjectedFailure
                failed_key = self.key_of_watchkey(fired[0][2])
                for _, kind, wkey in opp:
                    kk = self.key_of_watchkey(wkey)
                    if kk == failed_key:
                        break
                    ref.emitters[kk] = kk not in dead
                ref.emitters.pop(failed_key, None)
            else:
                for k in ref.emitters:
                    ref.emitters[k] = k not in dead
                ref.state = "running"
        elif call[0] == "stop":
            ref.handlers.clear()
            ref.emitters.clear()
            ref.state = "stopped"
        errs = []
        if want_exc is None and exc is not None:
            errs.append(("unexpected-exception", f"{call} raised {type(exc).__name__}: {exc}"))
        elif want_exc is not None and (exc is None or not isinstance(exc, want_exc)):
            errs.append(("missing-exception", f"{call}: reference expects {want_exc.__name__}, observed {type(exc).__name__ if exc else 'no exception'}"))
        return errs

    def key_of_watchkey(self, wkey):
        for k, w in self.watches.items():
            if w.key == wkey:
                return k
        return None

    def audit(self, b: Batch):
        obs, ref = self.obs, self.ref
        errs = []
        ems = list(obs.emitters)
        keys = [self.key_of(e.watch) for e in ems]
        b.count("call_audits")
        if sorted(k or "?" for k in keys) != sorted(ref.emitters):
            errs.append(("emitters-vs-scheduled", f"observer.emitters watches {sorted(k or '?' for k in keys)} != reference {sorted(ref.emitters)}"))
        else:
            for e, k in zip(ems, keys):
                if not ref.emitters[k] and e.is_alive():
                    e.join(2)  # a thread whose stop flag was set before it was started ends at once, not instantly
                alive = e.is_alive()
                if alive != ref.emitters[k]:
                    # an emitter thread that was just started is alive; one just stopped has been joined by the API
                    errs.append(("emitter-liveness", f"emitter of {k}: is_alive()={alive}, reference {ref.emitters[k]}"))
        # ---- the neighbour observer
        from watchdog.events import FileModifiedEvent as _FME

        b.count("neighbour_audits")
        if [e.watch for e in self.obs2.emitters] != [self.w_other] or not all(e.is_alive() for e in self.obs2.emitters):
            errs.append(("neighbour-observer-affected", f"the second observer's emitters are now {[e.watch for e in self.obs2.emitters]} (alive: {[e.is_alive() for e in self.obs2.emitters]})"))
        elif self.marker_n % 3 == 0:  # (the marker round trip through the neighbour's dispatcher every third audit: it costs a drain)
            self.marker_n += 1
            ev2 = _FME(f"/marker/other/{self.marker_n}")
            n_before = len(self.h_other.calls)
            self.obs2.event_queue.put((ev2, self.w_other))
            if apirig.drain(self.obs2, 10):
                got2 = sum(1 for _, e, _ in self.h_other.calls[n_before:] if e is ev2)
                stray = [n for n, h in self.h.items() if any(e is ev2 for _, e, _ in h.calls)]
                if got2 != 1 or stray:
                    errs.append(("neighbour-observer-affected", f"an event of the second observer reached its own handler {got2} time(s) and handlers of the first one: {stray}"))
        else:
            self.marker_n += 1
        if ref.state == "running" and obs.is_alive():
            from watchdog.events import FileModifiedEvent

            marks = {}
            for k in KEYS:
                self.marker_n += 1
                ev = FileModifiedEvent(f"/marker/{k}/{self.marker_n}")
                marks[k] = ev
                obs.event_queue.put((ev, self.watches[k]))
            if not apirig.drain(obs, 10):
                b.inconc("C13: dispatcher did not drain marker events within 10 s")
                return errs
            b.count("marker_audits", len(KEYS))
            for k, ev in marks.items():
                got = sorted(n for n, h in self.h.items() if any(e is ev for _, e, _ in h.calls))
                want = sorted(ref.handlers.get(k, ()))
                counts = {n: sum(1 for _, e, _ in h.calls if e is ev) for n, h in self.h.items()}
                if got != want or any(c > 1 for c in counts.values()):
                    errs.append(("marker-receivers", f"marker for {k} reached {counts}, reference handler set {want}"))
                if any(e is ev for _, e, _ in self.h_other.calls):
                    errs.append(("neighbour-observer-affected", f"marker for {k} of the first observer reached the handler of the second observer"))
        return errs

    def cleanup(self):
        try:
            if self.obs.is_alive():
                self.obs.stop()
                self.obs.join(10)
            else:
                self.obs.unschedule_all()
        except Exception:  # noqa: BLE001
            pass
        for e in self.emitters_made:
            if e.is_alive():
                e.stop()
        try:
            self.obs2.stop()
            self.obs2.join(10)
        except Exception:  # noqa: BLE001
            pass


def run_sequence(b: Batch, seq, fail_at=(), sample=False):
    run = Run(fail_at)
    b.case()
    rs = {"kind": "seq1", "seq": [list(c) for c in seq], "fail_at": list(fail_at)}
    trace = []
    try:
        for i, call in enumerate(seq):
            errs = run.do(call)
            errs += run.audit(b)
            trace.append({"call": list(call), "ref_emitters": dict(run.ref.emitters), "ref_handlers": {k: sorted(v) for k, v in run.ref.handlers.items()}})
            for mech, msg in errs:
                b.violation(mech, f"after call {i} of {seq} (fault at {list(fail_at)}; fired {run.plan.fired}): {msg}",
                            witness={"seq": [list(c) for c in seq], "fail_at": list(fail_at), "trace": trace}, replay_spec=rs)
            if errs:
                break
    finally:
        run.cleanup()
    touched = {c[-1] for c in seq if len(c) > 1}
    if run.plan.fired:
        b.count("faults_fired")
    if len(touched) >= 2 or run.plan.fired:
        b.nontrivial([seq, sorted(fail_at)])
    if sample and len(b.samples) < 2:
        b.sample({"sequence": [list(c) for c in seq], "fail_at": list(fail_at), "opportunities": [list(map(str, x)) for x in run.plan.log]})
    return run.plan.n


def with_faults(b: Batch, seq, sample=False):
    n = run_sequence(b, seq, (), sample)
    for i in range(n):
        run_sequence(b, seq, (i,), sample)


def rand_seq(r, n):
    seq = []
    state = "new"
    for _ in range(n):
        for _ in range(20):
            c = r.choice(CALLS) if r.random() < 0.8 else r.choice([("start",), ("schedule", r.choice(HANDLERS), r.choice(KEYS))])
            if r.random() < 0.12:
                c = r.choice(EXTRA_CALLS)
            if c[0] == "start" and state != "new":
                continue
            if c[0] == "stop" and r.random() < (0.5 if state == "stopped" else 0.6):
                continue
            break
        else:
            continue
        if c[0] == "start":
            state = "running"
        if c[0] == "stop":
            state = "stopped"
        seq.append(c)
    return seq


def stop_family():
    """Directed: everything scheduled around one or two stop() calls must be gone after the last stop()."""
    out = []
    for k in KEYS:
        for h in HANDLERS:
            out.append([("stop",), ("schedule", h, k), ("stop",)])
            out.append([("start",), ("stop",), ("schedule", h, k), ("stop",), ("schedule", "h1", "K1")])
            out.append([("schedule", h, k), ("start",), ("stop",), ("stop",), ("add_handler", h, k), ("stop",)])
            out.append([("start",), ("schedule", h, k), ("stop",), ("schedule", h, k), ("add_handler", "h2", k), ("stop",), ("remove_handler", "h2", k)])
    for k in ("K1", "K5"):
        # an emitter that ended by itself (its root was deleted) and what happens to the watch afterwards
        out.append([("start",), ("schedule", "h1", k), ("selfstop", k), ("schedule", "h2", k), ("unschedule", k), ("schedule", "h1", k)])
        out.append([("schedule", "h1", k), ("add_handler", "h2", k), ("start",), ("selfstop", k), ("unschedule", k), ("stop",)])
        out.append([("start",), ("schedule", "h1", k), ("schedule_follow", "h2", k), ("unschedule", k), ("schedule_follow", "h1", k), ("schedule", "h2", k), ("unschedule_all",)])
        out.append([("schedule_follow", "h1", k), ("schedule", "h2", k), ("start",), ("unschedule", k)])
    return out


def plan(tier, seed, jobs):
    specs = [{"kind": "stopfam"}]
    nc = len(CALLS)
    if tier == "quick":
        # all sequences of length <= 2 with every fault position; length 3 strided; random longer ones
        specs.append({"kind": "enum", "len": 1})
        for a in range(nc):
            specs.append({"kind": "enum", "len": 2, "first": a})
        for a in range(nc):
            specs.append({"kind": "enum", "len": 3, "first": a, "stride": 23, "offset": (seed + a) % 23})
        for j in range(jobs):
            specs.append({"kind": "random", "n": 60, "seed": seed, "j": j, "budget_s": 40})
    else:
        specs.append({"kind": "enum", "len": 1})
        for a in range(nc):
            specs.append({"kind": "enum", "len": 2, "first": a})
            for a2 in range(nc):
                specs.append({"kind": "enum", "len": 3, "first": a, "second": a2})
        for a in range(nc):
            for a2 in range(nc):
                specs.append({"kind": "enum", "len": 4, "first": a, "second": a2, "stride": 5, "offset": (seed + a + a2) % 5})
        for j in range(jobs * 4):
            specs.append({"kind": "random", "n": 1500, "seed": seed, "j": j, "budget_s": 600})
    return specs


def run_batch(spec):
    b = Batch(spec)
    if spec["kind"] == "enum":
        fixed = []
        if "first" in spec:
            fixed.append(CALLS[spec["first"]])
        if "second" in spec:
            fixed.append(CALLS[spec["second"]])
        idx = -1
        for tail in itertools.product(CALLS, repeat=spec["len"] - len(fixed)):
            seq = fixed + list(tail)
            if not valid(seq):
                continue
            idx += 1
            if "stride" in spec and idx % spec["stride"] != spec["offset"]:
                continue
            with_faults(b, seq, sample=(idx % 97 == 3))
    elif spec["kind"] == "stopfam":
        for i, seq in enumerate(stop_family()):
            with_faults(b, seq, sample=(i == 0))
            b.count("stop_family_sequences")
    elif spec["kind"] == "random":
        r = rng_for(spec["seed"], "c13", spec["j"])
        for n in range(spec["n"]):
            if b.expired():
                break
            seq = rand_seq(r, r.randint(4, 15))
            with_faults(b, seq, sample=(n == 0))
    elif spec["kind"] == "seq1":
        run_sequence(b, [tuple(c) for c in spec["seq"]], tuple(spec["fail_at"]), True)
    return b.to_dict()
