"""C06 - no API call order deadlocks; stop()+join() always ends every library thread.
Engine: wdverif/apireal.py.  Deciding monitors: hang classifier (call not returned within the watchdog AND identical stacks of
the caller and all library threads in three samples = deadlock; otherwise inconclusive) and the thread ledger (library threads
created since the case began still alive after stop()+join())."""

from __future__ import annotations

import itertools
import threading
import time

from wdverif import apireal, monitors
from wdverif.env import osledger
from wdverif.monitors import Batch, rng_for

ID = "C06"
LEVEL = "exploration"
RULE = (
    "case = (emitter kind in {inotify, polling, scripted}, API call sequence over {schedule(p1|p2|missing|file), unschedule, "
    "unschedule_all, rm(root of a watch), touch, start, start-again-after-failure, stop, stop-again, schedule-after-stop, join}) run "
    "from one thread (all sequences up to length 4 enumerated in thorough, sampled in quick), random longer ones from 2-3 threads and "
    "from inside callbacks, or one directed hold (library thread parked at a discovered line x stop/unschedule/root removal).  "
    "Non-trivial iff >=1 library thread was started and >=3 API calls were made (sweep: the hold point was reached)."
)
ASSUMPTIONS = [
    "a call is judged deadlocked only when the watchdog (12 s) fired AND the stacks of the caller and of every library thread are "
    "identical in three samples 0.5 s apart; a watchdog firing while stacks change is inconclusive",
    "documented exceptions (OSError for missing paths, KeyError for unknown watches, RuntimeError of threading for start/join misuse) "
    "are not violations; start() is not repeated on an observer that has been started (a stop() before the only start() is legal: the observer thread then ends at once and a final stop() must still end the emitters)",
    "single directed preemptions at line granularity; deadlocks needing two coordinated preemptions are only sampled",
]
MINIMUMS = {"quick": {"cases_judged": 500, "hold_cases_reached": 50}, "thorough": {"cases_judged": 30000, "hold_cases_reached": 1500}}
WALL_CAP = {"quick": 170, "thorough": 3000}

ALPHA = [("schedule", "p1"), ("schedule", "p2"), ("schedule", "missing"), ("unschedule", "p2"), ("unschedule_all", None), ("rm", "p2"),
         ("touch", "p1"), ("start", None), ("stop", None), ("join", None)]
ALPHA_X = ALPHA + [("mvout", "p2"), ("mvout", "p2"), ("touch", "p2")]


def valid(seq):
    started = stopped = False
    nstart = 0
    for op, arg in seq:
        if op == "start":
            if started:
                return False  # threading.Thread rules: a thread is started once
            nstart += 1
            started = True
        if op == "stop":
            stopped = True
        if op == "join" and not (started and stopped):
            return False  # join() on a running observer blocks by design until somebody stops it
    return True


def run_seq(b: Batch, kind, seq, led, ctx):
    c = apireal.Case(kind, led, timeout=ctx.get("timeout"), follow=ctx.get("follow", False))
    if c.follow:
        b.count("cases_with_followed_links_resolving_to_the_root")
    rm_p2 = False
    for op, arg in seq:
        if op == "rm":
            rm_p2 = True
        if op in ("touch", "mvout") and arg == "p2" and rm_p2:
            continue
        if op == "start" and c.started:
            continue
        if op == "join" and not (c.started and c.stopped):
            continue
        if op == "start":
            c.stopped_before_start = c.stopped
        rec = c.call(op, arg)
        if rec["status"] == "hung":
            break
        # a start() that failed may be retried (the suite endorses it)
        if op == "start" and rec["status"] == "raised" and ctx.get("retry_start", True):
            rec2 = c.call("start")
            if rec2["status"] == "hung":
                break
    out = c.finish()
    judge(b, out, c.log, {"kind": kind, "seq": [list(x) for x in seq]}, {"kind": "seq1", "emitter": kind, "seq": [list(x) for x in seq], "timeout": ctx.get("timeout"), "follow": ctx.get("follow", False)})
    nlib = sum(1 for r in c.log if r["op"] == "start" and r["status"] == "ok")
    if nlib and len(c.log) >= 3:
        b.nontrivial([kind, seq])
    return out


def judge(b: Batch, out, log, wit, rs, hold=None):
    b.case()
    b.count("cases_judged")
    b.count("api_calls", len(log))
    wit = dict(wit, log=log)
    if out["hung"]:
        h = out["hung"]
        if h["verdict"] == "deadlock":
            b.violation(f"deadlock:{h['call']}", f"{h['call']}({h['arg']}) did not return within the watchdog; caller and library threads parked with identical stacks in 3 samples",
                        witness=dict(wit, stacks=h["stacks"]), replay_spec=rs)
        else:
            b.inconc(f"C06: {h['call']} exceeded the watchdog but stacks were still changing")
            # the unfinished call keeps running in this process and may start library threads during later cases: the batch ends here
            b.budget = 0.0
        return
    if out.get("threads_alive_at_return") and not out["threads_alive"]:
        b.violation("thread-alive-when-stop-join-returned", f"library thread(s) still running 50 ms after the final stop() (+ join()) had returned (they ended later): {[t['thread'] for t in out['threads_alive_at_return']]}",
                    witness=dict(wit, threads=out["threads_alive_at_return"]), replay_spec=rs)
    acs = out.get("after_completed_stop")
    if acs is not None and acs["threads"] and not out["threads_alive"]:
        b.violation("thread-alive-after-completed-stop", f"a stop() of the started observer had returned and all calls had ended, yet {acs['threads']} kept running until a further stop()", witness=wit, replay_spec=rs)
    if out["threads_alive"]:
        b.violation("thread-alive-after-stop-join", f"library thread(s) still alive after stop()+join(): {[t['thread'] for t in out['threads_alive']]}",
                    witness=dict(wit, threads=out["threads_alive"]), replay_spec=rs)
    for r in out["undocumented"]:
        b.violation("undocumented-exception", f"{r['op']}({r['arg']}) raised {r['exc']}", witness=wit, replay_spec=rs)
    if out["exceptions"]:
        b.count("side_observation_C07_library_thread_died")
        for x in out["exceptions"]:
            b.add("side_observation_C07_exceptions", f"{x['thread']}: {x['exc'][:100]} || {x['tb'][-300:]} || {[ (r['op'], r['arg']) for r in log]}"[:900])
    if out["fds_open"] or out["ledger_violations"]:
        b.count("side_observation_C12_descriptor")


def run_flood(b: Batch, variant, n_events=12000):
    """A burst of events far larger than any reasonable queue bound while the handler is slow / blocked, then stop() from an
    application thread (variant 0) or from inside the callback (variant 1): nothing may block for ever."""
    from watchdog.events import FileModifiedEvent
    from watchdog.observers.api import BaseObserver

    from wdverif import apirig

    plan = apirig.FaultPlan(())
    reg = []
    obs = BaseObserver(apirig.make_scripted_emitter(plan, reg), timeout=0.02)
    gate = threading.Event()
    seen = []

    class H:
        def dispatch(self, event):
            seen.append(event)
            if len(seen) == 1:
                if variant == 1:
                    gate.wait(10)
                    obs.stop()
                else:
                    gate.wait(10)

    threads0 = set(threading.enumerate())
    obs.schedule(H(), "/flood", recursive=False)
    obs.start()
    em = reg[0]
    for i in range(n_events):
        em.script.put(FileModifiedEvent(f"/flood/e{i:06d}"))
    # let the emitter push as much as it can while the dispatcher sits in the first callback
    end = time.monotonic() + 6
    while time.monotonic() < end and not em.script.empty() and len(em.produced) < n_events:
        n0 = len(em.produced)
        time.sleep(0.05)
        if len(em.produced) == n0 and n0 > 0:
            break  # the emitter stopped making progress (blocked in a full queue?)
    b.case()
    b.count("cases_judged")
    b.count("flood_cases")
    b.count("flood_events_queued", len(em.produced))
    rs = {"kind": "flood1", "variant": variant}
    gate.set()
    log = []
    hung = None
    if variant == 0:
        st, _v, th = monitors.call_with_watchdog(obs.stop, 12.0, name="call-stop")
        log.append({"op": "stop", "status": st})
        if st == "hung":
            hung = ("stop", th)
    if hung is None:
        st, _v, th = monitors.call_with_watchdog(obs.join, 12.0, name="call-join")
        log.append({"op": "join", "status": st})
        if st == "hung":
            hung = ("join", th)
    if hung is not None:
        libs = [t for t in threading.enumerate() if apireal.is_library_thread(t) and t not in threads0]
        verdict, stacks = monitors.classify_hang([hung[1]] + libs, interval=0.5, samples=3)
        if verdict == "deadlock":
            b.violation(f"deadlock:{hung[0]}", f"{hung[0]}() did not return after a burst of {len(em.produced)} queued events (variant {variant}); threads parked with identical stacks",
                        witness={"variant": variant, "stacks": stacks, "queued": len(em.produced)}, replay_spec=rs)
        else:
            b.inconc("C06 flood: watchdog fired but stacks were changing")
        for e in reg:
            e.stop()
        return
    new = [t for t in threading.enumerate() if t not in threads0 and apireal.is_library_thread(t)]
    alive = monitors.wait_threads_gone(new, grace=5.0)
    if alive:
        b.violation("thread-alive-after-stop-join", f"after the flood: {[monitors.thread_desc(t) for t in alive]}", witness={"variant": variant}, replay_spec=rs)
    b.nontrivial(["flood", variant, len(em.produced) // 1000])


def run_slow_emitter(b: Batch, what, busy=6.5):
    """An emitter that is in the middle of a long scan (a polling walk of a big tree, a slow network listing) when stop() /
    unschedule() arrives: the call waits for it - however long - and does not come back with the thread still running."""
    from watchdog.observers.api import BaseObserver, EventEmitter

    entered = threading.Event()

    class Busy(EventEmitter):
        def queue_events(self, timeout):
            entered.set()
            time.sleep(busy)  # one uninterruptible unit of work

    obs = BaseObserver(Busy, timeout=0.02)

    class H:
        def dispatch(self, event):
            pass

    threads0 = set(threading.enumerate())
    w = obs.schedule(H(), "/slow", recursive=False)
    obs.start()
    entered.wait(5)
    time.sleep(0.2)
    ems = list(obs.emitters)
    b.case()
    b.count("cases_judged")
    b.count("slow_emitter_cases")
    rs = {"kind": "slow1", "what": what}
    call = (lambda: obs.unschedule(w)) if what == "unschedule" else obs.stop
    st, _v, th = monitors.call_with_watchdog(call, busy + 15.0, name=f"call-{what}")
    alive_at_return = [monitors.thread_desc(e) for e in ems if e.is_alive()]
    if st == "hung":
        b.inconc(f"C06 slow emitter: {what}() did not return within {busy + 15:.0f} s")
    elif alive_at_return:
        b.violation("thread-alive-when-stop-join-returned", f"{what}() returned while the emitter it was meant to end was still in the middle of its work: {alive_at_return}",
                    witness={"what": what, "busy": busy}, replay_spec=rs)
    obs.stop()
    obs.join(busy + 10)
    new = [t for t in threading.enumerate() if t not in threads0 and apireal.is_library_thread(t)]
    left = monitors.wait_threads_gone(new, grace=busy + 5.0)
    if left:
        b.violation("thread-alive-after-stop-join", f"slow emitter: {[monitors.thread_desc(t) for t in left]}", witness={"what": what}, replay_spec=rs)
    b.nontrivial(["slow", what])


def run_multi(b: Batch, kind, r, led):
    """2-3 threads issue random calls concurrently; a handler makes re-entrant calls from the dispatcher thread."""
    c = apireal.Case(kind, led)
    state = {"n": 0}

    def hook(event):
        state["n"] += 1
        if state["n"] in (1, 3):
            x = r.choice(["unschedule_all", "stop", "schedule", "unschedule"])
            try:
                if x == "unschedule_all":
                    c.obs.unschedule_all()
                elif x == "stop":
                    c.obs.stop()
                elif x == "schedule":
                    c.obs.schedule(c.h, c.paths["p1"], recursive=False)
                elif x == "unschedule" and "p2" in c.watches:
                    c.obs.unschedule(c.watches["p2"])
            except apireal.DOCUMENTED:
                pass

    c.h.hook = hook
    c.call("schedule", "p2")
    if r.random() < 0.5:
        c.call("schedule", "p1")
    concurrent_start = r.random() < 0.4
    if not concurrent_start:
        c.call("start")
    seqs = [[r.choice(ALPHA[:7] + [("touch", "p2"), ("touch", "p2"), ("stop", None)]) for _ in range(r.randint(2, 5))] for _ in range(r.randint(2, 3))]
    if concurrent_start:
        # start() itself races the other threads' calls (stop(), schedule(), unschedule() ...)
        seqs[0].insert(0, ("start", None))
        if r.random() < 0.6:
            seqs[1].insert(0, ("stop", None))
    hung = []

    def worker(seq):
        for op, arg in seq:
            if c.hung:
                return
            if op == "start" and c.started:
                continue
            if op == "touch":
                try:
                    c.call(op, arg)
                except Exception:  # noqa: BLE001
                    pass
            else:
                c.call(op, arg)

    ts = [threading.Thread(target=worker, args=(s,), name=f"wdv-api{i}", daemon=True) for i, s in enumerate(seqs)]
    for t in ts:
        t.start()
    for t in ts:
        t.join(40)
    out = c.finish()
    judge(b, out, c.log, {"kind": kind, "multi": [[list(x) for x in s] for s in seqs]}, None)
    b.nontrivial([kind, "multi", seqs])
    b.count("multi_thread_cases")


def run_unmount(b: Batch, led, variant):
    """The watched root is a mounted tmpfs that is unmounted while the observer runs (IN_UNMOUNT + IN_IGNORED, no IN_DELETE_SELF):
    the reader ends by itself; stop()+join() must still return and end every thread."""
    import os
    import subprocess

    c = apireal.Case("inotify", led)
    mnt = c.paths["p2"]
    if subprocess.run(["mount", "-t", "tmpfs", "tmpfs", mnt], capture_output=True).returncode != 0:
        b.count("unmount_cases_skipped_no_mount_permission")
        c.finish()
        return
    try:
        os.mkdir(os.path.join(mnt, "sub"))
        c.call("schedule", "p2")
        c.call("start")
        c.call("touch", "p2")
        c.call("sleep", 0.05)
    finally:
        r = subprocess.run(["umount", mnt], capture_output=True)
        if r.returncode != 0:
            subprocess.run(["umount", "-l", mnt], capture_output=True)
    c.call("sleep", 0.1)
    if variant == 1:
        c.call("unschedule", "p2")
    elif variant == 2:
        c.call("schedule", "p1")
    out = c.finish()
    judge(b, out, c.log, {"kind": "inotify", "unmount": variant}, {"kind": "unmount1", "variant": variant})
    b.count("unmount_cases")
    b.nontrivial(["unmount", variant, len(c.log)])


PARTNERS = ["stop", "unschedule", "rmroot", "touch"]


def plan(tier, seed, jobs):
    specs = []
    if tier == "quick":
        for j in range(6):
            specs.append({"kind": "seqs", "emitter": "inotify", "n": 400, "seed": seed, "j": j, "budget_s": 45})
        for j in range(2):
            specs.append({"kind": "seqs", "emitter": "polling", "n": 300, "seed": seed, "j": j, "budget_s": 45})
        specs.append({"kind": "seqs", "emitter": "scripted", "n": 300, "seed": seed, "j": 0, "budget_s": 45})
        for j in range(3):
            specs.append({"kind": "multi", "n": 120, "seed": seed, "j": j, "budget_s": 45})
        for j in range(4):
            specs.append({"kind": "holds", "emitter": "inotify", "seed": seed, "j": j, "of": 4, "budget_s": 60})
        specs.append({"kind": "unmount", "n": 6})
        specs.append({"kind": "flood", "n": 2})
        specs.append({"kind": "slow"})
    else:
        specs.append({"kind": "unmount", "n": 60})
        specs.append({"kind": "flood", "n": 20})
        specs.append({"kind": "slow"})
        for j in range(jobs * 2):
            specs.append({"kind": "seqs", "emitter": "inotify", "n": 8000, "seed": seed, "j": j, "budget_s": 200, "enum": True, "of": jobs * 2})
        for j in range(jobs):
            specs.append({"kind": "seqs", "emitter": "polling", "n": 5000, "seed": seed, "j": j, "budget_s": 200})
        for j in range(4):
            specs.append({"kind": "seqs", "emitter": "scripted", "n": 5000, "seed": seed, "j": j, "budget_s": 200})
        for j in range(jobs):
            specs.append({"kind": "multi", "n": 3000, "seed": seed, "j": j, "budget_s": 200})
        for j in range(jobs):
            specs.append({"kind": "holds", "emitter": "inotify", "seed": seed, "j": j, "of": jobs, "budget_s": 300, "reps": 6})
    return specs


def run_batch(spec):
    b = Batch(spec)
    led = osledger.install()
    k = spec["kind"]
    if k == "seqs":
        r = rng_for(spec["seed"], "C06", spec["emitter"], spec["j"])
        if spec.get("enum"):
            idx = -1
            for n in range(1, 5):
                for seq in itertools.product(ALPHA, repeat=n):
                    if not valid(seq) or not any(op == "start" for op, _ in seq):
                        continue
                    idx += 1
                    if idx % spec["of"] != spec["j"] or b.expired():
                        continue
                    run_seq(b, spec["emitter"], list(seq), led, {})
        for n in range(spec["n"]):
            if b.expired():
                break
            seq = [r.choice(ALPHA_X if n % 3 == 0 else ALPHA) for _ in range(r.randint(2, 7))]
            if r.random() < 0.7 and not any(op == "start" for op, _ in seq):
                seq.insert(r.randrange(len(seq)), ("start", None))
            if not valid(seq):
                continue
            # a third of the cases with a short observer timeout (the emitters' own pacing is then far slower than the timeout)
            out = run_seq(b, spec["emitter"], seq, led, {"timeout": 0.05 if n % 3 == 0 else None, "follow": ("self", "up")[n % 2] if n % 5 == 1 else False})
            if n == 0:
                b.sample({"emitter": spec["emitter"], "sequence": [list(x) for x in seq]})
    elif k == "multi":
        r = rng_for(spec["seed"], "C06m", spec["j"])
        for n in range(spec["n"]):
            if b.expired():
                break
            run_multi(b, r.choice(["inotify", "inotify", "polling"]), r, led)
    elif k == "holds":
        pts = apireal.discover(spec["emitter"], spec["seed"])
        for p in pts:
            b.add("hold_points_planned", f"{p[0]}:{p[1]}:{p[2]}")
        if not pts:
            b.inconc("no lines discovered in the inotify pipeline")
        ins = apireal.instr_for_pipeline(spec["seed"])
        r = rng_for(spec["seed"], "C06h", spec["j"])
        with ins:
            pts = sorted(pts, key=lambda t: (0 if t[0].startswith("wdv-call-") else 1, t[0], t[1], str(t[2])))
            for rep in range(spec.get("reps", 1)):
                for i, pt in enumerate(pts):
                    if i % spec["of"] != spec["j"] or b.expired():
                        continue
                    closer = pt[0].startswith("wdv-call-")
                    for partner in (["touch", "rmroot", "none", "schedule"] if closer else PARTNERS):
                        nth = r.choice([1, 1, 2])
                        ev = r.choice([False, True, "mkdirs"])
                        out = apireal.hold_case(ins, led, spec["emitter"], pt, nth, partner, ev)
                        judge(b, out, out["log"], {"hold": list(map(str, pt)), "nth": nth, "partner": partner, "event": ev},
                              {"kind": "hold1", "emitter": spec["emitter"], "point": list(pt), "nth": nth, "partner": partner, "event": ev})
                        b.count("hold_cases_reached" if out["reached"] else "hold_cases_not_reached")
                        if out["reached"]:
                            b.add("hold_points_reached", f"{pt[0]}:{pt[1]}:{pt[2]}")
                            b.nontrivial(["hold", list(map(str, pt)), nth, partner, ev])
    elif k == "flood":
        for n in range(spec["n"]):
            run_flood(b, n % 2, (12000, 40000)[n] if n < 2 else 12000 * (1 + n % 5))
    elif k == "slow":
        for what in ("stop", "unschedule"):
            run_slow_emitter(b, what)
    elif k == "slow1":
        run_slow_emitter(b, spec["what"])
    elif k == "flood1":
        run_flood(b, spec["variant"])
    elif k == "unmount":
        for n in range(spec["n"]):
            run_unmount(b, led, n % 3)
    elif k == "unmount1":
        run_unmount(b, led, spec["variant"])
    elif k == "seq1":
        run_seq(b, spec["emitter"], [tuple(x) for x in spec["seq"]], led, {"timeout": spec.get("timeout"), "follow": spec.get("follow", False)})
    elif k == "hold1":
        ins = apireal.instr_for_pipeline(1)
        with ins:
            for _ in range(3):
                pt = tuple(spec["point"])
                out = apireal.hold_case(ins, led, spec["emitter"], pt, spec["nth"], spec["partner"], spec["event"])
                judge(b, out, out["log"], {"hold": list(map(str, pt))}, spec)
    return b.to_dict()
