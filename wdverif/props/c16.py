"""C16 - the event queue drops only true consecutive duplicates and never anything else.

Monitors: (a) sequential reference model over all short put/get sequences; (b) linearizability checker
(Wing-Gong with memoisation) over recorded concurrent histories of 1-3 producers + 1 consumer on real threads, driven
by noise and by directed holds at every executed line of SkipRepeatsQueue.put/_put/_get; (c) pairwise equality/hash law.
Not dropping a duplicate is never a violation (the statement only forbids losing anything else).
"""

from __future__ import annotations

import itertools
import queue as stdqueue
import sys
import threading
import time

from wdverif.instrument import Hold, Instr, run_partner
from wdverif.monitors import Batch, rng_for

ID = "C16"
LEVEL = "exploration"
RULE = (
    "case = a put/get sequence over values {A,B,C(other class, same fields),(A,w1),(A,w2)} (fresh object per put, so each "
    "output is attributed to its put), or a recorded concurrent history (<=12 ops, <=3 producers + 1 consumer, with a noise "
    "or directed-hold plan), or a pair of event objects for the equality law.  Non-trivial iff >=1 put was dropped, or >=2 "
    "threads had overlapping operation intervals; distinct by canonical hash of the sequence / history shape + plan."
)
ASSUMPTIONS = [
    "items are attributed by object identity (every put uses a fresh object), so drops are observed, not inferred",
    "thread switches are forced only at line granularity (CPython 3.12 switches at calls/back-edges); directed holds cover "
    "single preemptions at every executed line of put/_put/_get, coordinated multi-preemption schedules are only sampled",
    "the reference equality (same class and same src_path/dest_path/is_synthetic) is the one written in the statement",
]
MINIMUMS = {
    "quick": {"sequences_judged": 20000, "histories_linearised": 1500, "pairs_judged": 5000, "hold_cases_reached": 30},
    "thorough": {"sequences_judged": 300000, "histories_linearised": 20000, "hold_cases_reached": 300},
}
WALL_CAP = {"quick": 150, "thorough": 2400}


# ------------------------------------------------------------------------------------------------ values
def ref_equal(x, y) -> bool:
    """Reference equality from the statement: same class and same field values (tuples: elementwise; watches by key)."""
    from watchdog.events import FileSystemEvent
    from watchdog.observers.api import ObservedWatch

    if isinstance(x, tuple) and isinstance(y, tuple):
        return len(x) == len(y) and all(ref_equal(a, b) for a, b in zip(x, y))
    if isinstance(x, FileSystemEvent) and isinstance(y, FileSystemEvent):
        return type(x) is type(y) and (x.src_path, x.dest_path, x.is_synthetic) == (y.src_path, y.dest_path, y.is_synthetic)
    if isinstance(x, ObservedWatch) and isinstance(y, ObservedWatch):
        return (x.path, x.is_recursive, x.event_filter) == (y.path, y.is_recursive, y.event_filter)
    return x is y


def make(value: str):
    from watchdog import events as ev
    from watchdog.observers.api import ObservedWatch

    if value == "A":
        return ev.FileModifiedEvent("/a")
    if value == "B":
        return ev.FileModifiedEvent("/b")
    if value == "C":
        return ev.DirModifiedEvent("/a")
    if value == "S":
        return ev.FileModifiedEvent("/a", is_synthetic=True)
    if value == "D":
        return ev.FileMovedEvent("/a", "/b")
    if value == "E":
        return ev.FileMovedEvent("/a", "/c")
    if value == "Ab":
        # the bytes spelling of A's path: an event of another watch, equal hash in CPython, not an equal event
        return ev.FileModifiedEvent(b"/a")
    if value == "Ad":
        # a path that differs from A's only by Unicode normalisation form is another file
        return ev.FileModifiedEvent("/a\u0301")
    if value == "An":
        return ev.FileModifiedEvent("/\u00e1")
    if value == "Aw1":
        return (ev.FileModifiedEvent("/a"), ObservedWatch("/w1", recursive=True))
    if value == "Aw2":
        return (ev.FileModifiedEvent("/a"), ObservedWatch("/w2", recursive=True))
    if value == "Aw1n":
        return (ev.FileModifiedEvent("/a"), ObservedWatch("/w1", recursive=False))
    raise ValueError(value)


VALUES = ["A", "B", "C", "Aw1", "Aw2"]
VALUES_WIDE = ["A", "B", "C", "S", "D", "E", "Aw1", "Aw2", "Aw1n", "Ab", "Ad", "An"]


def new_queue():
    from watchdog.observers.api import EventQueue

    return EventQueue()


# ------------------------------------------------------------------------------------------------ sequential
def run_sequence(b: Batch, ops, how="put"):
    """ops: list of value names or 'get'."""
    q = new_queue()
    model: list = []
    last = None
    dropped = 0
    b.case()
    for i, op in enumerate(ops):
        if op == "get":
            try:
                got = q.get_nowait()
            except stdqueue.Empty:
                if model:
                    return b.violation("seq-lost", f"get on non-empty model raised Empty at step {i} of {ops}", witness={"ops": ops},
                                       replay_spec={"kind": "seq1", "ops": ops, "how": how})
                continue
            if not model:
                return b.violation("seq-phantom", f"get returned {got!r} but the model is empty (step {i} of {ops})", witness={"ops": ops},
                                   replay_spec={"kind": "seq1", "ops": ops, "how": how})
            if got is not model[0]:
                return b.violation("seq-fifo", f"get returned a different object than the FIFO head at step {i} of {ops}", witness={"ops": ops},
                                   replay_spec={"kind": "seq1", "ops": ops, "how": how})
            model.pop(0)
            if got is last:
                last = None
        else:
            x = make(op)
            before = q.qsize()
            if how == "put":
                q.put(x)
            elif how == "put_nowait":
                q.put_nowait(x)
            else:
                q.put(x, False)
            accepted = q.qsize() == before + 1
            if accepted:
                model.append(x)
                last = x
            else:
                dropped += 1
                if last is None or not ref_equal(last, x):
                    return b.violation(
                        "seq-illegal-drop",
                        f"put({op}) at step {i} of {ops} was dropped although the previous accepted item is "
                        f"{'already consumed' if last is None else 'different'}",
                        witness={"ops": ops, "step": i}, replay_spec={"kind": "seq1", "ops": ops, "how": how})
    rest = []
    while True:
        try:
            rest.append(q.get_nowait())
        except stdqueue.Empty:
            break
    if len(rest) != len(model) or any(a is not m for a, m in zip(rest, model)):
        return b.violation("seq-final-drain", f"final drain differs from the model for {ops}", witness={"ops": ops},
                           replay_spec={"kind": "seq1", "ops": ops, "how": how})
    b.count("sequences_judged")
    if dropped:
        b.count("sequences_with_drop")
        b.nontrivial(["seq", ops, how])
    return None


# ------------------------------------------------------------------------------------------------ equality law
def run_pairs(b: Batch):
    from watchdog import events as ev

    classes = [ev.FileSystemEvent, ev.FileSystemMovedEvent, ev.FileDeletedEvent, ev.FileModifiedEvent, ev.FileCreatedEvent,
               ev.FileMovedEvent, ev.FileClosedEvent, ev.FileClosedNoWriteEvent, ev.FileOpenedEvent, ev.DirDeletedEvent,
               ev.DirModifiedEvent, ev.DirCreatedEvent, ev.DirMovedEvent]
    objs = []
    for c in classes:
        for src in ("/a", "/b", b"/a", "/a\u0301", "/\u00e1"):
            for dest in ("", "/d"):
                for syn in (False, True):
                    objs.append(c(src, dest, is_synthetic=syn))
    for x, y in itertools.product(objs, objs):
        want = ref_equal(x, y)
        b.count("pairs_judged")
        if (x == y) != want or (x != y) == want:
            b.violation("eq-law", f"{x!r} == {y!r} is {x == y}, reference says {want}", witness={"x": repr(x), "y": repr(y)}, replay_spec={"kind": "pairs"})
        elif want and hash(x) != hash(y):
            b.violation("hash-law", f"equal events with different hashes: {x!r}", witness={"x": repr(x)}, replay_spec={"kind": "pairs"})
    # an equal-valued fresh copy is equal, and a queue drops it only then
    b.nontrivial("pairs")
    b.nontrivial("pairs2")


# ------------------------------------------------------------------------------------------------ concurrent
class Op:
    __slots__ = ("tid", "kind", "value", "obj", "tcall", "tret", "result", "idx")

    def __init__(self, tid, kind, value=None):
        self.tid, self.kind, self.value = tid, kind, value
        self.obj = None
        self.tcall = self.tret = None
        self.result = None


def linearizable(ops, initial_last=None, deadline=None):
    """ops: put ops with .result in {'accepted','dropped'} and .obj; get ops with .result = obj.  Returns True/False/None(timeout)."""
    n = len(ops)
    for i, o in enumerate(ops):
        o.idx = i
    memo = set()
    # precedence: a must come before b if a.tret < b.tcall
    before = [[j for j in range(n) if ops[j].tret is not None and ops[j].tret < ops[i].tcall] for i in range(n)]

    def rec(done: frozenset, q: tuple, last):
        if len(done) == n:
            return True
        if deadline and time.monotonic() > deadline:
            raise TimeoutError
        key = (done, tuple(id(x) for x in q), id(last) if last is not None else 0)
        if key in memo:
            return False
        memo.add(key)
        for i in range(n):
            if i in done or any(j not in done for j in before[i]):
                continue
            o = ops[i]
            if o.kind == "put":
                if o.result == "accepted":
                    if rec(done | {i}, q + (o.obj,), o.obj):
                        return True
                else:
                    if last is not None and ref_equal(last, o.obj) and rec(done | {i}, q, last):
                        return True
            elif o.kind == "size":
                if len(q) == o.result and rec(done | {i}, q, last):
                    return True
            else:
                if o.result is None:  # get that observed Empty
                    if not q and rec(done | {i}, q, last):
                        return True
                elif q and q[0] is o.result:
                    if rec(done | {i}, q[1:], None if o.result is last else last):
                        return True
        return False

    try:
        return rec(frozenset(), (), initial_last)
    except TimeoutError:
        return None
    except RecursionError:
        return None


def run_history(b: Batch, plan, instr: Instr | None, hold_plan=None, ctx=None):
    """plan: {'producers': [[values...], ...], 'gets': n}.  Returns True if judged."""
    q = new_queue()
    clock = time.monotonic_ns
    ops_by_thread = []
    barrier = threading.Barrier(len(plan["producers"]) + 1)
    all_ops: list[Op] = []
    lock = threading.Lock()

    def producer(tid, values):
        mine = []
        barrier.wait()
        for v in values:
            if v in ("?", "W"):
                # observe the queue length through the public accessor ("W": wait, bounded, until it reads 0)
                o = Op(tid, "size", v)
                for _ in range(400 if v == "W" else 1):
                    o.tcall = clock()
                    o.result = q.qsize()
                    o.tret = clock()
                    if o.result == 0:
                        break
                    time.sleep(0)
                mine.append(o)
                continue
            o = Op(tid, "put", v)
            o.obj = make(v)
            o.tcall = clock()
            q.put(o.obj)
            o.tret = clock()
            mine.append(o)
        with lock:
            all_ops.extend(mine)

    def consumer(n):
        mine = []
        barrier.wait()
        for _ in range(n):
            o = Op("c", "get")
            o.tcall = clock()
            try:
                o.result = q.get(timeout=0.02)
            except stdqueue.Empty:
                o.result = None
            o.tret = clock()
            mine.append(o)
        with lock:
            all_ops.extend(mine)

    threads = [threading.Thread(target=producer, args=(i, vals), name=f"wdv-prod{i}", daemon=True) for i, vals in enumerate(plan["producers"])]
    threads.append(threading.Thread(target=consumer, args=(plan["gets"],), name="wdv-cons", daemon=True))
    hold = None
    if hold_plan is not None and instr is not None:
        hold = instr.add_hold(Hold(hold_plan["role"], hold_plan["qualname"], hold_plan["line"], nth=hold_plan.get("nth", 1), timeout=3.0))
    for t in threads:
        t.start()
    reached = False
    if hold is not None:
        # the held thread stands at the chosen line; all the other threads run to completion or block; then release
        reached = hold.wait_reached(1.0)
        if reached:
            t_end = time.monotonic() + 0.15
            others = [t for t in threads if t is not hold.thread]
            for t in others:
                t.join(max(0.0, t_end - time.monotonic()))
        hold.release()
    for t in threads:
        t.join(10)
    if instr is not None:
        instr.clear_holds()
    if any(t.is_alive() for t in threads):
        b.inconc("C16 history threads did not finish within 10 s")
        return False
    # attribute: accepted iff the object came out (consumer or final drain)
    rest = []
    while True:
        try:
            rest.append(q.get_nowait())
        except stdqueue.Empty:
            break
    out_ids = {id(o.result) for o in all_ops if o.kind == "get" and o.result is not None} | {id(x) for x in rest}
    seen_twice = len([1 for o in all_ops if o.kind == "get" and o.result is not None]) + len(rest) != len(out_ids)
    puts = [o for o in all_ops if o.kind == "put"]
    for o in puts:
        o.result = "accepted" if id(o.obj) in out_ids else "dropped"
    # final drain = gets after everything
    tmax = max(o.tret for o in all_ops) + 1
    ops = list(all_ops)
    for x in rest:
        g = Op("c", "get")
        g.tcall = tmax
        g.tret = tmax + 1
        g.result = x
        tmax += 2
        ops.append(g)
    b.case()
    shape = {"producers": plan["producers"], "gets": plan["gets"], "hold": hold_plan,
             "results": [[o.result for o in puts if o.tid == i] for i in range(len(plan["producers"]))]}
    wit = dict(shape, ctx=ctx)
    rs = {"kind": "hist1", "plan": plan, "hold": hold_plan}
    if seen_twice:
        b.violation("conc-duplicate-delivery", "an object was handed out twice", witness=wit, replay_spec=rs)
        return True
    put_ids = {id(o.obj) for o in puts}
    if not out_ids <= put_ids:
        b.violation("conc-phantom", "an object that was never put came out", witness=wit, replay_spec=rs)
        return True
    verdict = linearizable(ops, deadline=time.monotonic() + 2.0)
    if verdict is None:
        b.count("linearisation_timeouts")
        return False
    b.count("histories_linearised")
    if hold_plan is not None:
        b.count("hold_cases_reached" if reached else "hold_cases_not_reached")
        if reached:
            b.add("hold_points_reached", f"{hold_plan['role'][:8]}:{hold_plan['qualname']}:{hold_plan['line']}")
    ndrop = sum(1 for o in puts if o.result == "dropped")
    overlap = _overlap(all_ops)
    if any(o.kind == "size" and o.result == 0 for o in all_ops):
        b.count("histories_with_empty_observed")
    if ndrop:
        b.count("histories_with_drop")
    if overlap:
        b.count("histories_with_overlap")
    if ndrop or overlap:
        b.nontrivial(["hist", shape])
    if verdict is False:
        b.violation(
            "conc-not-linearisable",
            f"no linearisation explains the history: producers={plan['producers']} results={shape['results']} "
            f"consumer got {[(_val(o.result, puts)) for o in all_ops if o.kind == 'get']} rest={[_val(x, puts) for x in rest]}",
            witness=dict(wit, ops=[(o.tid, o.kind, o.value, o.tcall, o.tret, _val(o.result, puts) if o.kind == 'get' else o.result) for o in sorted(all_ops, key=lambda o: o.tcall)]),
            replay_spec=rs)
    return True


def _val(obj, puts):
    if obj is None:
        return None
    for o in puts:
        if o.obj is obj:
            return f"{o.value}@p{o.tid}"
    return "?"


def _overlap(ops):
    xs = sorted(ops, key=lambda o: o.tcall)
    for i, a in enumerate(xs):
        for c in xs[i + 1 :]:
            if c.tcall < a.tret and c.tid != a.tid:
                return True
            if c.tcall >= a.tret:
                break
    return False


def instr_for_queue(seed):
    from watchdog.utils.bricks import SkipRepeatsQueue

    ins = Instr(seed=seed)
    # every function the class defines itself (whatever the bookkeeping is spread over), plus the inherited entry points
    import types

    own = [f for f in vars(SkipRepeatsQueue).values() if isinstance(f, types.FunctionType)]
    ins.watch(*own)
    ins.watch(stdqueue.Queue.put, stdqueue.Queue.get)
    return ins


def discover_lines(seed):
    ins = instr_for_queue(seed)
    ins.discover = True
    with ins:
        b = Batch()
        for _ in range(3):
            run_history(b, {"producers": [["A", "A", "B"], ["A", "B"]], "gets": 4}, ins)
    pts = set()
    for role, qn, line in ins.points:
        if qn.startswith("SkipRepeatsQueue.") and (role.startswith("wdv-prod") or role == "wdv-cons"):
            pts.add(("prod" if role.startswith("wdv-prod") else "cons", qn, line))
    return sorted(pts, key=lambda t: (t[0], t[1], str(t[2])))


def rand_plan(r, wide=False):
    vals = VALUES_WIDE if wide else ["A", "B", "A", "A", "Aw1", "Aw2", "C"]
    np_ = r.choice([1, 2, 2, 3, 3])
    prods = [[r.choice(vals) for _ in range(r.randint(1, 3))] for _ in range(np_)]
    if r.random() < 0.35:
        # a producer that looks at qsize() between its puts: "taken out" becomes observable before get() has returned
        k = r.randrange(np_)
        v = r.choice(["A", "A", "B"])
        prods[k] = [v, r.choice(["?", "W", "W"]), v] + ([r.choice(["W", "?"]), v] if r.random() < 0.4 else [])
    return {"producers": prods, "gets": r.randint(0, 4) if r.random() < 0.7 else r.randint(2, 5)}


def plan(tier, seed, jobs):
    specs = [{"kind": "pairs"}]
    if tier == "quick":
        specs.append({"kind": "seq", "maxlen": 5, "how": "put"})
        for first in VALUES + ["get"]:
            specs.append({"kind": "seq", "len": 6, "first": first, "how": "put"})
        specs.append({"kind": "seq", "maxlen": 5, "how": "put_nowait"})
        specs.append({"kind": "seq", "maxlen": 4, "how": "put_noblock"})
        for j in range(jobs):
            specs.append({"kind": "conc", "n": 400, "seed": seed, "j": j, "budget_s": 35, "mode": "noise"})
        for j in range(jobs):
            specs.append({"kind": "conc", "n": 60, "seed": seed, "j": j, "budget_s": 40, "mode": "holds"})
    else:
        specs.append({"kind": "seq", "maxlen": 5, "how": "put"})
        for first in VALUES + ["get"]:
            for second in VALUES + ["get"]:
                specs.append({"kind": "seq", "len": 7, "first": first, "second": second, "how": "put"})
            specs.append({"kind": "seq", "len": 6, "first": first, "how": "put"})
            specs.append({"kind": "seq", "len": 6, "first": first, "how": "put_nowait"})
        for j in range(jobs * 3):
            specs.append({"kind": "conc", "n": 6000, "seed": seed, "j": j, "budget_s": 300, "mode": "noise"})
        for j in range(jobs * 3):
            specs.append({"kind": "conc", "n": 1200, "seed": seed, "j": j, "budget_s": 400, "mode": "holds"})
    return specs


def run_batch(spec):
    b = Batch(spec)
    kind = spec["kind"]
    if kind == "pairs":
        run_pairs(b)
        b.case()
    elif kind == "seq":
        alpha = VALUES + ["get"]
        if "maxlen" in spec:
            for n in range(1, spec["maxlen"] + 1):
                for ops in itertools.product(alpha, repeat=n):
                    run_sequence(b, list(ops), spec["how"])
        else:
            fixed = [spec["first"]] + ([spec["second"]] if "second" in spec else [])
            for ops in itertools.product(alpha, repeat=spec["len"] - len(fixed)):
                run_sequence(b, fixed + list(ops), spec["how"])
        if "maxlen" in spec:
            # near-equal items back to back (equal hash / equal up to normalisation / synthetic twin): all are delivered
            for x, y in itertools.permutations(["A", "Ab", "Ad", "An", "S", "C"], 2):
                for ops_ in ([x, y], [x, y, "get", "get"], [x, y, x, y], [x, "get", y, x]):
                    run_sequence(b, list(ops_), spec["how"])
        b.sample({"sequence": ["A", "A", "get", "A", "B", "A"], "how": spec["how"]})
    elif kind == "seq1":
        run_sequence(b, spec["ops"], spec["how"])
    elif kind == "conc":
        r = rng_for(spec["seed"], "c16", spec["j"], spec["mode"])
        sys.setswitchinterval(1e-5)
        if spec["mode"] == "noise":
            ins = instr_for_queue(spec["seed"] * 1000 + spec["j"])
            ins.set_noise(0.25, 0.0005)
            with ins:
                for n in range(spec["n"]):
                    if b.expired():
                        break
                    if n % 3 == 2:
                        ins.set_noise(0.0)
                    else:
                        ins.set_noise(r.choice([0.1, 0.25, 0.5]), r.choice([0.0, 0.0003, 0.001]))
                    p = rand_plan(r, wide=(n % 5 == 0))
                    run_history(b, p, ins, ctx={"mode": "noise"})
                    if n == 1:
                        b.sample({"history_plan": p, "mode": "noise"})
        else:
            pts = discover_lines(spec["seed"])
            b.count("hold_points_discovered", 0)
            for pt in pts:
                b.add("hold_points_planned", f"{pt[0]}:{pt[1]}:{pt[2]}")
            if not pts:
                b.inconc("no lines discovered in SkipRepeatsQueue.put/_put/_get")
                return b.to_dict()
            ins = instr_for_queue(spec["seed"] * 1000 + spec["j"])
            with ins:
                n = 0
                while n < spec["n"] and not b.expired():
                    for pt in pts:
                        if n >= spec["n"] or b.expired():
                            break
                        n += 1
                        who, qn, line = pt
                        p = rand_plan(r)
                        if who == "prod":
                            role = f"wdv-prod{r.randrange(len(p['producers']))}"
                        else:
                            role = "wdv-cons"
                            p["gets"] = max(1, p["gets"])
                        hp = {"role": role, "qualname": qn, "line": line, "nth": r.choice([1, 1, 2])}
                        run_history(b, p, ins, hold_plan=hp, ctx={"mode": "hold"})
                        if n == 1:
                            b.sample({"history_plan": p, "hold": hp})
    elif kind == "hist1":
        ins = instr_for_queue(1)
        with ins:
            for _ in range(20):
                run_history(b, spec["plan"], ins, hold_plan=spec.get("hold"), ctx={"mode": "replay"})
    return b.to_dict()
