"""C14 - synthetic events for a moved directory name every descendant once and correctly.

Real directory trees on disk; the two public generators are called on them and compared with a reference built from
the harness's own os.scandir walk and plain os.path.join.
"""

from __future__ import annotations

import itertools
import os
import shutil
import tempfile
from collections import Counter

from wdverif.monitors import Batch, rng_for

ID = "C14"
LEVEL = "exploration"
RULE = (
    "case = (real tree under dest over names {a,b,ab} colliding with the components of src/dest, depth<=3, <=5 entries; "
    "src/dest spelling absolute, relative (cwd=base), './x', 'x/../y', or with a doubled separator; str or bytes; src possibly empty).  All such trees are enumerated "
    "(quick: strided), plus random larger trees.  Non-trivial iff >=2 descendants and some relative path repeats a component "
    "of the destination path; distinct by (tree, spelling, type)."
)
ASSUMPTIONS = ["trees are real directories on the scratch filesystem; the reference walks them with os.scandir and joins with os.path.join"]
MINIMUMS = {"quick": {"trees_judged": 500, "events_judged": 2000, "rekey_histories": 40, "rekey_probes_judged": 200},
            "thorough": {"trees_judged": 8000, "rekey_histories": 2000}}
WALL_CAP = {"quick": 120, "thorough": 1800}

NAMES = ["a", "b", "ab"]


def all_trees(max_entries=5, max_depth=3):
    """Trees as frozensets of (relpath, isdir); parent-closed; enumerated canonically."""
    out = set()

    def grow(tree: frozenset):
        if tree in out:
            return
        out.add(tree)
        if len(tree) >= max_entries:
            return
        dirs = [""] + [p for p, d in tree if d]
        paths = {p for p, _ in tree}
        for par in dirs:
            depth = 0 if par == "" else par.count("/") + 1
            if depth >= max_depth:
                continue
            for n in NAMES:
                p = n if par == "" else par + "/" + n
                if p in paths:
                    continue
                for isdir in (True, False):
                    grow(tree | {(p, isdir)})

    grow(frozenset())
    return sorted(out, key=lambda t: (len(t), sorted(t)))


def build(dest: str, tree):
    os.makedirs(dest)
    for p, isdir in sorted(tree, key=lambda t: (isinstance(t[1], str), t[0])):
        full = os.path.join(dest, p)
        if isinstance(isdir, str):
            # a symbolic link; "@x" = to x relative to the moved directory's top, anything else verbatim
            tgt = os.path.relpath(os.path.join(dest, isdir[1:]), os.path.dirname(full)) if isdir.startswith("@") else isdir
            os.symlink(tgt, full)
        elif isdir:
            os.mkdir(full)
        else:
            with open(full, "w"):
                pass


def ref_walk(dest):
    """[(relpath, isdir)] parents before children (any order satisfying that)."""
    out = []

    def rec(d, rel):
        for e in sorted(os.scandir(d), key=lambda e: e.name):
            nm = os.fsdecode(e.name)
            r = nm if rel is None else os.path.join(rel, nm)
            isd = e.is_dir(follow_symlinks=False)
            # a link to a directory is one descendant (either flavour accepted); nothing behind it belongs to the tree
            out.append((r, "either" if (e.is_symlink() and e.is_dir()) else isd))
            if isd:
                rec(e.path, r)

    rec(dest, None)
    return out


def judge(b: Batch, base, tree, spelling, as_bytes, empty_src, comp):
    """comp = (src name, dest name) of the moved directory inside base."""
    from watchdog.events import DirCreatedEvent, DirMovedEvent, FileCreatedEvent, FileMovedEvent, generate_sub_created_events, generate_sub_moved_events

    srcn, destn = comp
    dest_abs = os.path.join(base, destn)
    if os.path.exists(dest_abs):
        shutil.rmtree(dest_abs)
    build(dest_abs, tree)
    cwd = os.getcwd()
    try:
        if spelling == "rel":
            os.chdir(base)
            src, dest = srcn, destn
        elif spelling == "dot":
            os.chdir(base)
            src, dest = "./" + srcn, "./" + destn
        elif spelling == "dotdot":
            os.chdir(base)
            os.makedirs(os.path.join(base, "x"), exist_ok=True)
            src, dest = "x/../" + srcn, "x/../" + destn
        elif spelling == "slashes":
            src, dest = base + "//" + srcn, base + "//" + destn
        else:
            src, dest = os.path.join(base, srcn), dest_abs
        if empty_src:
            src = ""
        if as_bytes:
            src, dest = os.fsencode(src), os.fsencode(dest)
        walk = ref_walk(dest)
        rs = {"kind": "one", "tree": sorted(tree), "spelling": spelling, "bytes": as_bytes, "empty_src": empty_src, "comp": list(comp)}
        wit = {"tree": sorted(tree), "src": repr(src), "dest": repr(dest)}
        b.case()
        # ---- moved
        try:
            got = list(generate_sub_moved_events(src, dest))
            gotc2 = list(generate_sub_created_events(dest))
        except Exception as e:  # noqa: BLE001
            b.count("trees_judged")
            b.violation("sub-events-raised", f"generator raised {type(e).__name__}: {e} for src={src!r} dest={dest!r}", witness=wit, replay_spec=rs)
            return
        either = {os.path.join(dest, os.fsencode(r) if as_bytes else r) for r, isd in walk if isd == "either"}
        if either:
            b.count("trees_with_directory_links")
        walk = [(r, False if isd == "either" else isd) for r, isd in walk]
        want = Counter()
        for r, isd in walk:
            rr = os.fsencode(r) if as_bytes else r
            s = os.path.join(src, rr) if src else ""  # an absent source is the empty placeholder (str or bytes accepted)
            want[("DirMovedEvent" if isd else "FileMovedEvent", s, os.path.join(dest, rr), True)] += 1
        flav = lambda e, p: type(e).__name__.replace("Dir", "File") if p in either else type(e).__name__  # noqa: E731
        gotc = Counter((flav(e, e.dest_path), e.src_path if e.src_path else "", e.dest_path, e.is_synthetic) for e in got)
        b.count("trees_judged")
        b.count("events_judged", len(got))
        if gotc != want:
            miss = list((want - gotc).items())[:3]
            extra = list((gotc - want).items())[:3]
            b.violation("sub-moved-mismatch", f"generate_sub_moved_events({src!r},{dest!r}): missing {miss!r} unexpected {extra!r}", witness=wit, replay_spec=rs)
        else:
            seen = set()
            for e in got:
                par = os.path.dirname(e.dest_path)
                if par != dest and par not in seen:
                    b.violation("sub-moved-order", f"child {e.dest_path!r} before its parent", witness=wit, replay_spec=rs)
                    break
                seen.add(e.dest_path)
            if any((e.src_path and type(e.src_path) is not type(dest)) or type(e.dest_path) is not type(dest) for e in got):
                b.violation("sub-moved-type", "path type differs from the argument type", witness=wit, replay_spec=rs)
        # ---- created
        want2 = Counter()
        for r, isd in walk:
            rr = os.fsencode(r) if as_bytes else r
            want2[("DirCreatedEvent" if isd else "FileCreatedEvent", os.path.join(dest, rr), dest[:0], True)] += 1
        cc = Counter((flav(e, e.src_path), e.src_path, e.dest_path if e.dest_path else dest[:0], e.is_synthetic) for e in gotc2)
        b.count("events_judged", len(gotc2))
        if cc != want2:
            b.violation("sub-created-mismatch", f"generate_sub_created_events({dest!r}): missing {list((want2 - cc).items())[:3]!r} unexpected {list((cc - want2).items())[:3]!r}",
                        witness=wit, replay_spec=rs)
        else:
            seen = set()
            for e in gotc2:
                par = os.path.dirname(e.src_path)
                if par != dest and par not in seen:
                    b.violation("sub-created-order", f"child {e.src_path!r} before its parent", witness=wit, replay_spec=rs)
                    break
                seen.add(e.src_path)
        comps = set(os.fsdecode(dest).split(os.sep))
        if len(walk) >= 2 and any(set(r.split(os.sep)) & comps for r, _ in walk):
            b.nontrivial([sorted(tree), spelling, as_bytes, empty_src, comp])
        if len(b.samples) < 2 and len(walk) >= 3:
            b.sample({"src": repr(src), "dest": repr(dest), "tree": sorted(tree), "events": [(type(e).__name__, repr(e.src_path), repr(e.dest_path)) for e in got][:6]})
    finally:
        os.chdir(cwd)
        shutil.rmtree(dest_abs, ignore_errors=True)


def judge_vanish(b: Batch, base, tree, as_bytes, r):
    """A sub-directory vanishes between being listed in its parent and being listed itself (transient lookup failure): every
    descendant outside that sub-directory is still named exactly once, with its real path."""
    from watchdog.events import generate_sub_created_events, generate_sub_moved_events

    dirs = sorted(p for p, k in tree if k is True)
    if len(dirs) < 2:
        return
    victim = r.choice(dirs)
    for which in ("moved", "created"):
        dest_abs = os.path.join(base, "b")
        if os.path.exists(dest_abs):
            shutil.rmtree(dest_abs)
        build(dest_abs, tree)
        src, dest = os.path.join(base, "a"), dest_abs
        if as_bytes:
            src, dest = os.fsencode(src), os.fsencode(dest)
        vict_abs = os.path.join(dest_abs, victim)
        real_scandir = os.scandir
        fired = []

        def scandir(path=".", _real=real_scandir):
            if not fired and os.fsdecode(path) == vict_abs:
                fired.append(1)
                shutil.rmtree(vict_abs)
            return _real(path)

        os.scandir = scandir
        try:
            got = list(generate_sub_moved_events(src, dest)) if which == "moved" else list(generate_sub_created_events(dest))
            exc = None
        except Exception as e:  # noqa: BLE001
            got, exc = [], e
        finally:
            os.scandir = real_scandir
        b.case()
        if not fired:
            shutil.rmtree(dest_abs, ignore_errors=True)
            continue
        b.count("vanish_cases_judged")
        b.nontrivial(["vanish", sorted(tree, key=str), victim, which, as_bytes])
        wit = {"tree": sorted(tree, key=str), "victim": victim, "which": which, "bytes": as_bytes}
        if exc is not None:
            b.violation("sub-events-raised", f"generate_sub_{which}_events raised {type(exc).__name__}: {exc} when {victim} vanished during the walk", witness=wit)
        else:
            paths = Counter(os.fsdecode(e.dest_path if which == "moved" else e.src_path) for e in got)
            want = {os.path.join(dest_abs, p) for p, _k in tree if not p.startswith(victim + "/")}
            missing = sorted(w for w in want if paths.get(w, 0) != 1)
            extra = sorted(p for p in paths if p not in want and not p.startswith(vict_abs + os.sep))
            if missing or extra:
                b.violation(f"sub-{which}-mismatch", f"{victim} vanished during the walk: descendants outside it not named exactly once: {missing[:4]} / unexpected {extra[:4]}", witness=wit)
        shutil.rmtree(dest_abs, ignore_errors=True)


def judge_deep(b: Batch, base, depth, as_bytes):
    """A renamed tree nested deeper than the interpreter's recursion limit (names of one character: the path still fits
    PATH_MAX): every level is named, in order, by both generators."""
    import subprocess

    from watchdog.events import generate_sub_created_events, generate_sub_moved_events

    dest_abs = os.path.join(base, "b")
    subprocess.run(["rm", "-rf", dest_abs], check=False)
    cur = dest_abs
    os.mkdir(cur)
    for _ in range(depth):  # (os.makedirs recurses)
        cur = os.path.join(cur, "a")
        os.mkdir(cur)
    with open(os.path.join(cur, "f"), "w"):
        pass
    src, dest = os.path.join(base, "a"), dest_abs
    if as_bytes:
        src, dest = os.fsencode(src), os.fsencode(dest)
    sep = os.fsencode(os.sep) if as_bytes else os.sep
    a = b"a" if as_bytes else "a"
    want_rel = [sep.join([a] * k) for k in range(1, depth + 1)] + [sep.join([a] * depth + [b"f" if as_bytes else "f"])]
    b.case()
    b.count("deep_trees_judged")
    b.nontrivial(["deep", depth, as_bytes])
    try:
        for which in ("moved", "created"):
            try:
                got = list(generate_sub_moved_events(src, dest)) if which == "moved" else list(generate_sub_created_events(dest))
            except BaseException as e:  # noqa: BLE001  (RecursionError is not an Exception subclass issue, but be broad)
                b.violation("sub-events-raised", f"generate_sub_{which}_events raised {type(e).__name__} on a tree {depth} levels deep", witness={"depth": depth, "bytes": as_bytes})
                continue
            if which == "moved":
                got_p = [(e.src_path, e.dest_path) for e in got]
                want_p = [(src + sep + r_, dest + sep + r_) for r_ in want_rel]
            else:
                got_p = [e.src_path for e in got]
                want_p = [dest + sep + r_ for r_ in want_rel]
            if got_p != want_p:
                n_ok = next((i for i, (x, y) in enumerate(zip(got_p, want_p)) if x != y), min(len(got_p), len(want_p)))
                b.violation(f"sub-{which}-mismatch", f"tree {depth} levels deep: {len(got_p)} events for {len(want_p)} descendants; first difference at level {n_ok}",
                            witness={"depth": depth, "bytes": as_bytes})
    finally:
        subprocess.run(["rm", "-rf", dest_abs], check=False)


REKEY_BIAS = {"mkdir": 4, "makedirs": 3, "rename_dir": 8, "rename_file": 4, "create": 3, "move_in": 2, "move_out": 1.5, "rmtree": 1, "rmdir": 1,
              "unlink": 1, "write": 0.3, "chmod": 0.2, "rename_replace": 1}


def rekey_scripts():
    """Directed histories for the third anchor (the prefix rewrite of the watch-path map after a directory rename): the old
    name is re-created and re-used by files and directories, then entries below the renamed directory are renamed again."""
    out = []
    for x, y, sub, t in (("a", "b", "s", "t"), ("a", "ab", "a", "b"), ("ab", "a", "b", "ab")):
        out.append([["makedirs", f"root/{x}/{sub}/u"], ["create", f"root/{x}/{sub}/u/f"], ["drain"], ["rename", f"root/{x}", f"root/{y}"], ["drain"],
                    ["mkdir", f"root/{x}"], ["drain"], ["create", f"root/{x}/{sub}"], ["drain"], ["rename", f"root/{x}/{sub}", f"root/{x}/{t}"], ["drain"],
                    ["rename", f"root/{y}/{sub}/u", f"root/{y}/{sub}/v"], ["drain"], ["create", f"root/{y}/{sub}/v/g"], ["drain"]])
        out.append([["makedirs", f"root/{x}/{sub}/u"], ["drain"], ["rename", f"root/{x}", f"root/{y}"], ["drain"], ["makedirs", f"root/{x}/{sub}"], ["drain"],
                    ["rename", f"root/{x}/{sub}", f"root/{x}/{t}"], ["drain"], ["create", f"root/{y}/{sub}/u/g"], ["drain"],
                    ["rename", f"root/{y}", f"root/{x}/{sub}"], ["drain"], ["create", f"root/{x}/{sub}/{sub}/u/h"], ["drain"]])
    return out


def run_rekey(b: Batch, seed, j, n):
    """In vivo: real inotify observer, paced histories, probes in every directory and replay; a probe reported under a
    wrong path / not at all, or synthetic events that break the replay, are this property's third anchor failing."""
    from wdverif import fshist
    from wdverif.props import c01

    r = rng_for(seed, "c14k", j)

    def fold(h, cfg):
        b.case()
        b.count("rekey_histories")
        b.count("rekey_probes_judged", h.counts.get("probes_judged", 0))
        if h.inconclusive:
            b.inconc(f"C14 rekey: {h.inconclusive}")
        seen = set()
        for p_, mech, msg, det in h.viol:
            if (p_, mech.split(":")[0]) in (("C02", "probe-wrong-path"), ("C02", "probe-unreported"), ("C01", "replay-mismatch")) and mech not in seen:
                seen.add(mech)
                b.violation("rekey:" + mech, msg, witness={"cfg": cfg, "history": h.ops, "detail": det},
                            replay_spec={"kind": "rekey1", "cfg": dict(cfg, script=h.ops)})
        if sum(1 for o in h.ops if o[0] == "rename") >= 2:
            b.nontrivial(["rekey", cfg.get("seed"), h.ops])

    if j == 0:
        for k, script in enumerate(rekey_scripts()):
            for spelling, as_bytes in (("abs", False), ("abs", True), ("rel", False)):
                cfg = {"seed": seed * 100 + k, "recursive": True, "n_root": 0, "n_out": 1, "final_probes": True, "probe_p": 1.0, "script": script,
                       "spelling": spelling, "bytes": as_bytes, "backend": "inotify"}
                h = fshist.History(cfg)
                h.run()
                fold(h, cfg)
                b.count("rekey_scripted")
    for i in range(n):
        if b.expired():
            break
        cfg = c01.make_cfg(r, seed * 1000003 + j * 10007 + i, probe_p=0.5)
        cfg.update({"bias": REKEY_BIAS, "n_ops": r.randint(8, 24), "recursive": True, "backend": "inotify", "names": r.choice([["a", "b"], ["a", "ab", "b"], ["a", "s", "t"]])})
        cfg.pop("mode", None)
        h = fshist.History(cfg)
        h.run()
        fold(h, cfg)


def plan(tier, seed, jobs):
    n = len(all_trees())
    specs = []
    for j in range(4 if tier == "quick" else jobs):
        specs.append({"kind": "rekey", "seed": seed, "j": j, "n": 40 if tier == "quick" else 1500, "budget_s": 45 if tier == "quick" else 600})
    if tier == "quick":
        k = 32
        for off in range(k):
            specs.append({"kind": "enum", "stride": k * 10, "offset": (seed + off * 10) % (k * 10), "budget_s": 60})
        for j in range(8):
            specs.append({"kind": "random", "n": 60, "seed": seed, "j": j, "budget_s": 40})
    else:
        k = 64
        for off in range(k):
            specs.append({"kind": "enum", "stride": k, "offset": off, "budget_s": 1500})
        for j in range(32):
            specs.append({"kind": "random", "n": 1500, "seed": seed, "j": j, "budget_s": 600})
    return specs


EXHAUSTIVE = {"thorough": True}
COMPS = [("a", "b"), ("b", "a"), ("a", "ab"), ("ab", "a")]


def run_batch(spec):
    b = Batch(spec)
    # the base path itself repeats the names used inside the trees: .../a/b/<dir>
    top = tempfile.mkdtemp(prefix="wdv-c14-")
    base = os.path.join(top, "a", "b")
    os.makedirs(base)
    try:
        if spec["kind"] == "enum":
            trees = all_trees()
            idx = -1
            for tree in trees:
                for spelling, as_bytes, comp in itertools.product(("abs", "rel", "dot", "dotdot", "slashes"), (False, True), COMPS):
                    idx += 1
                    if idx % spec["stride"] != spec["offset"]:
                        continue
                    if b.expired():
                        b.inconc("enumeration budget exhausted")
                        return b.to_dict()
                    judge(b, base, tree, spelling, as_bytes, False, comp)
                    if idx % 7 == 0:
                        judge(b, base, tree, spelling, as_bytes, True, comp)
        elif spec["kind"] == "random":
            r = rng_for(spec["seed"], "c14", spec["j"])
            if spec["j"] == 0:
                judge_deep(b, base, 1100, False)
                judge_deep(b, base, 1100, True)
            ext = os.path.join(top, "ext")
            os.makedirs(os.path.join(ext, "a"))
            with open(os.path.join(ext, "o1"), "w"):
                pass
            for _ in range(spec["n"]):
                if b.expired():
                    break
                tree = set()
                dirs = [""]
                for _ in range(r.randint(3, 12)):
                    par = r.choice(dirs)
                    if par.count("/") >= 3:
                        continue
                    n = r.choice(NAMES + ["b", "a", os.path.basename(top)])
                    p = n if par == "" else par + "/" + n
                    if p in {q for q, _ in tree}:
                        continue
                    isd = r.random() < 0.5
                    tree.add((p, isd))
                    if isd:
                        dirs.append(p)
                if r.random() < 0.35:
                    # symbolic links: to a directory elsewhere in the tree (never an ancestor: no loops), to a directory outside
                    # the tree, to a file, dangling
                    for _ in range(r.randint(1, 2)):
                        par = r.choice(dirs)
                        ln = (par + "/" if par else "") + r.choice(["l", "a", "ab"])
                        if ln in {q for q, _ in tree}:
                            continue
                        cands = [d for d in dirs if d and not (ln.startswith(d + "/"))] + [q for q, k in tree if k is False]
                        kind = r.choice(["in", "in", "out", "dangling"])
                        if kind == "in" and cands:
                            tree.add((ln, "@" + r.choice(cands)))
                        elif kind == "out":
                            tree.add((ln, ext))
                        else:
                            tree.add((ln, "nowhere"))
                judge(b, base, frozenset(tree), r.choice(["abs", "rel", "dot", "dotdot", "slashes"]), r.random() < 0.4, r.random() < 0.15, r.choice(COMPS))
                if r.random() < 0.3:
                    judge_vanish(b, base, frozenset(t for t in tree if not isinstance(t[1], str)), r.random() < 0.3, r)
        elif spec["kind"] == "rekey":
            run_rekey(b, spec["seed"], spec["j"], spec["n"])
        elif spec["kind"] == "rekey1":
            from wdverif import fshist

            h = fshist.History(spec["cfg"])
            h.run()
            for p_, mech, msg, det in h.viol:
                if p_ in ("C01", "C02"):
                    b.violation("rekey:" + mech, msg, witness={"detail": det})
            b.case()
        elif spec["kind"] == "one":
            ext = os.path.join(top, "ext")
            os.makedirs(os.path.join(ext, "a"))
            with open(os.path.join(ext, "o1"), "w"):
                pass
            spec["tree"] = [(p_, ext if isinstance(d_, str) and d_.endswith("/ext") else d_) for p_, d_ in spec["tree"]]
            judge(b, base, frozenset((p, d) for p, d in spec["tree"]), spec["spelling"], spec["bytes"], spec["empty_src"], tuple(spec["comp"]))
    finally:
        shutil.rmtree(top, ignore_errors=True)
    return b.to_dict()
