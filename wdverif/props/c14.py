"""C14 - synthetic events for a moved directory name every descendant once and correctly.

Real directory trees on disk; the two public generators are called on them and compared with a reference built from
the harness's own os.scandir walk and plain os.path.join.
"""

from __future__ import annotations

import itertools
import os
import shutil
import tempfile
from collections import Counter

from wdverif.monitors import Batch, rng_for

ID = "C14"
LEVEL = "exploration"
RULE = (
    "case = (real tree under dest over names {a,b,ab} colliding with the components of src/dest, depth<=3, <=5 entries; "
    "src/dest spelling absolute, relative (cwd=base), './x', 'x/../y', or with a doubled separator; str or bytes; src possibly empty).  All such trees are enumerated "
    "(quick: strided), plus random larger trees.  Non-trivial iff >=2 descendants and some relative path repeats a component "
    "of the destination path; distinct by (tree, spelling, type)."
)
ASSUMPTIONS = ["trees are real directories on the scratch filesystem; the reference walks them with os.scandir and joins with os.path.join"]
MINIMUMS = {"quick": {"trees_judged": 500, "events_judged": 2000}, "thorough": {"trees_judged": 8000}}
WALL_CAP = {"quick": 120, "thorough": 1800}

NAMES = ["a", "b", "ab"]


def all_trees(max_entries=5, max_depth=3):
    """Trees as frozensets of (relpath, isdir); parent-closed; enumerated canonically."""
    out = set()

    def grow(tree: frozenset):
        if tree in out:
            return
        out.add(tree)
        if len(tree) >= max_entries:
            return
        dirs = [""] + [p for p, d in tree if d]
        paths = {p for p, _ in tree}
        for par in dirs:
            depth = 0 if par == "" else par.count("/") + 1
            if depth >= max_depth:
                continue
            for n in NAMES:
                p = n if par == "" else par + "/" + n
                if p in paths:
                    continue
                for isdir in (True, False):
                    grow(tree | {(p, isdir)})

    grow(frozenset())
    return sorted(out, key=lambda t: (len(t), sorted(t)))


def build(dest: str, tree):
    os.makedirs(dest)
    for p, isdir in sorted(tree):
        full = os.path.join(dest, p)
        if isdir:
            os.mkdir(full)
        else:
            with open(full, "w"):
                pass


def ref_walk(dest):
    """[(relpath, isdir)] parents before children (any order satisfying that)."""
    out = []

    def rec(d, rel):
        for e in sorted(os.scandir(d), key=lambda e: e.name):
            nm = os.fsdecode(e.name)
            r = nm if rel is None else os.path.join(rel, nm)
            isd = e.is_dir(follow_symlinks=False)
            out.append((r, isd))
            if isd:
                rec(e.path, r)

    rec(dest, None)
    return out


def judge(b: Batch, base, tree, spelling, as_bytes, empty_src, comp):
    """comp = (src name, dest name) of the moved directory inside base."""
    from watchdog.events import DirCreatedEvent, DirMovedEvent, FileCreatedEvent, FileMovedEvent, generate_sub_created_events, generate_sub_moved_events

    srcn, destn = comp
    dest_abs = os.path.join(base, destn)
    if os.path.exists(dest_abs):
        shutil.rmtree(dest_abs)
    build(dest_abs, tree)
    cwd = os.getcwd()
    try:
        if spelling == "rel":
            os.chdir(base)
            src, dest = srcn, destn
        elif spelling == "dot":
            os.chdir(base)
            src, dest = "./" + srcn, "./" + destn
        elif spelling == "dotdot":
            os.chdir(base)
            os.makedirs(os.path.join(base, "x"), exist_ok=True)
            src, dest = "x/../" + srcn, "x/../" + destn
        elif spelling == "slashes":
            src, dest = base + "//" + srcn, base + "//" + destn
        else:
            src, dest = os.path.join(base, srcn), dest_abs
        if empty_src:
            src = ""
        if as_bytes:
            src, dest = os.fsencode(src), os.fsencode(dest)
        walk = ref_walk(dest)
        rs = {"kind": "one", "tree": sorted(tree), "spelling": spelling, "bytes": as_bytes, "empty_src": empty_src, "comp": list(comp)}
        wit = {"tree": sorted(tree), "src": repr(src), "dest": repr(dest)}
        b.case()
        # ---- moved
        got = list(generate_sub_moved_events(src, dest))
        want = Counter()
        for r, isd in walk:
            rr = os.fsencode(r) if as_bytes else r
            s = os.path.join(src, rr) if src else ""  # an absent source is the empty placeholder (str or bytes accepted)
            want[("DirMovedEvent" if isd else "FileMovedEvent", s, os.path.join(dest, rr), True)] += 1
        gotc = Counter((type(e).__name__, e.src_path if e.src_path else "", e.dest_path, e.is_synthetic) for e in got)
        b.count("trees_judged")
        b.count("events_judged", len(got))
        if gotc != want:
            miss = list((want - gotc).items())[:3]
            extra = list((gotc - want).items())[:3]
            b.violation("sub-moved-mismatch", f"generate_sub_moved_events({src!r},{dest!r}): missing {miss!r} unexpected {extra!r}", witness=wit, replay_spec=rs)
        else:
            seen = set()
            for e in got:
                par = os.path.dirname(e.dest_path)
                if par != dest and par not in seen:
                    b.violation("sub-moved-order", f"child {e.dest_path!r} before its parent", witness=wit, replay_spec=rs)
                    break
                seen.add(e.dest_path)
            if any((e.src_path and type(e.src_path) is not type(dest)) or type(e.dest_path) is not type(dest) for e in got):
                b.violation("sub-moved-type", "path type differs from the argument type", witness=wit, replay_spec=rs)
        # ---- created
        gotc2 = list(generate_sub_created_events(dest))
        want2 = Counter()
        for r, isd in walk:
            rr = os.fsencode(r) if as_bytes else r
            want2[("DirCreatedEvent" if isd else "FileCreatedEvent", os.path.join(dest, rr), dest[:0], True)] += 1
        cc = Counter((type(e).__name__, e.src_path, e.dest_path if e.dest_path else dest[:0], e.is_synthetic) for e in gotc2)
        b.count("events_judged", len(gotc2))
        if cc != want2:
            b.violation("sub-created-mismatch", f"generate_sub_created_events({dest!r}): missing {list((want2 - cc).items())[:3]!r} unexpected {list((cc - want2).items())[:3]!r}",
                        witness=wit, replay_spec=rs)
        else:
            seen = set()
            for e in gotc2:
                par = os.path.dirname(e.src_path)
                if par != dest and par not in seen:
                    b.violation("sub-created-order", f"child {e.src_path!r} before its parent", witness=wit, replay_spec=rs)
                    break
                seen.add(e.src_path)
        comps = set(os.fsdecode(dest).split(os.sep))
        if len(walk) >= 2 and any(set(r.split(os.sep)) & comps for r, _ in walk):
            b.nontrivial([sorted(tree), spelling, as_bytes, empty_src, comp])
        if len(b.samples) < 2 and len(walk) >= 3:
            b.sample({"src": repr(src), "dest": repr(dest), "tree": sorted(tree), "events": [(type(e).__name__, repr(e.src_path), repr(e.dest_path)) for e in got][:6]})
    finally:
        os.chdir(cwd)
        shutil.rmtree(dest_abs, ignore_errors=True)


def plan(tier, seed, jobs):
    n = len(all_trees())
    specs = []
    if tier == "quick":
        k = 32
        for off in range(k):
            specs.append({"kind": "enum", "stride": k * 10, "offset": (seed + off * 10) % (k * 10), "budget_s": 60})
        for j in range(8):
            specs.append({"kind": "random", "n": 60, "seed": seed, "j": j, "budget_s": 40})
    else:
        k = 64
        for off in range(k):
            specs.append({"kind": "enum", "stride": k, "offset": off, "budget_s": 1500})
        for j in range(32):
            specs.append({"kind": "random", "n": 1500, "seed": seed, "j": j, "budget_s": 600})
    return specs


EXHAUSTIVE = {"thorough": True}
COMPS = [("a", "b"), ("b", "a"), ("a", "ab"), ("ab", "a")]


def run_batch(spec):
    b = Batch(spec)
    # the base path itself repeats the names used inside the trees: .../a/b/<dir>
    top = tempfile.mkdtemp(prefix="wdv-c14-")
    base = os.path.join(top, "a", "b")
    os.makedirs(base)
    try:
        if spec["kind"] == "enum":
            trees = all_trees()
            idx = -1
            for tree in trees:
                for spelling, as_bytes, comp in itertools.product(("abs", "rel", "dot", "dotdot", "slashes"), (False, True), COMPS):
                    idx += 1
                    if idx % spec["stride"] != spec["offset"]:
                        continue
                    if b.expired():
                        b.inconc("enumeration budget exhausted")
                        return b.to_dict()
                    judge(b, base, tree, spelling, as_bytes, False, comp)
                    if idx % 7 == 0:
                        judge(b, base, tree, spelling, as_bytes, True, comp)
        elif spec["kind"] == "random":
            r = rng_for(spec["seed"], "c14", spec["j"])
            for _ in range(spec["n"]):
                if b.expired():
                    break
                tree = set()
                dirs = [""]
                for _ in range(r.randint(3, 12)):
                    par = r.choice(dirs)
                    if par.count("/") >= 3:
                        continue
                    n = r.choice(NAMES + ["b", "a", os.path.basename(top)])
                    p = n if par == "" else par + "/" + n
                    if p in {q for q, _ in tree}:
                        continue
                    isd = r.random() < 0.5
                    tree.add((p, isd))
                    if isd:
                        dirs.append(p)
                judge(b, base, frozenset(tree), r.choice(["abs", "rel", "dot", "dotdot", "slashes"]), r.random() < 0.4, r.random() < 0.15, r.choice(COMPS))
        elif spec["kind"] == "one":
            judge(b, base, frozenset((p, d) for p, d in spec["tree"]), spec["spelling"], spec["bytes"], spec["empty_src"], tuple(spec["comp"]))
    finally:
        shutil.rmtree(top, ignore_errors=True)
    return b.to_dict()
