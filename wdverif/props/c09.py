"""C09 - a snapshot diff is a correct, minimal, inode-faithful description of the change.

Deciding monitor: the laws in oracles/difflaws.py evaluated on every DirectorySnapshotDiff built from
real DirectorySnapshot objects over a dict-backed VFS (injectable stat/listdir).
"""

from __future__ import annotations

import itertools
import os
import random

from wdverif.env.vfs import VFS, Ent
from wdverif.monitors import Batch, rng_for
from wdverif.oracles import difflaws

ID = "C09"
LEVEL = "exploration"
RULE = (
    "case = (ref tree, new tree, recursive flag) over a VFS; enumerated part: every canonical ref tree (names {a,b}, "
    "depth<=2, <=3 entries, inodes 1..n, stamps 0) x every new tree (same shapes, inode pool of 4, (mtime,size) in "
    "{(0,0),(1,0),(0,1)}) - symmetric reduction over inode renaming; random part: 3 names, depth 3, pool 8, two device "
    "ids, str/bytes, recursive and not.  Non-trivial iff ref != new and >=1 moved/swapped/inode-changed path; distinct "
    "by canonical (ref,new,flags) hash."
)
ASSUMPTIONS = [
    "snapshots are built by the real DirectorySnapshot through its injectable stat/listdir over an in-memory tree; "
    "each inode has one path (precondition of the property; pairs violating it are not generated)",
    "symmetric reduction: the code is assumed not to depend on the numeric value of inode numbers in the enumerated "
    "part; the random part uses arbitrary numbers and two device ids",
]
MINIMUMS = {"quick": {"diffs_judged": 30000, "nontrivial_pairs": 5000, "entrypoint_cm_judged": 1000, "invivo_diffs_judged": 300}, "thorough": {"diffs_judged": 400000}}
WALL_CAP = {"quick": 120, "thorough": 1800}

PATHS = ["a", "b", "a/a", "a/b", "b/a", "b/b"]
STAMPS = [(0, 0), (1, 0), (0, 1)]


def shapes(maxn=3):
    out = []
    for n in range(maxn + 1):
        for sub in itertools.combinations(PATHS, n):
            s = set(sub)
            for kinds in itertools.product((False, True), repeat=n):
                k = dict(zip(sub, kinds))
                ok = all(("/" not in p) or (p.split("/")[0] in s and k[p.split("/")[0]]) for p in sub)
                if ok:
                    out.append(k)
    return out


def canonical_refs():
    out = []
    for k in shapes():
        st = {}
        for i, p in enumerate(sorted(k)):
            st[p] = Ent(i + 1, 0, k[p], 0, 0)
        out.append(st)
    return out


def new_states():
    for k in shapes():
        ps = sorted(k)
        n = len(ps)
        for inos in itertools.permutations((1, 2, 3, 4), n):
            for stamps in itertools.product(STAMPS, repeat=n):
                yield {p: Ent(inos[i], 0, k[p], stamps[i][0], stamps[i][1]) for i, p in enumerate(ps)}


SPECIAL: dict[int, int] = {}  # inode -> S_IFSOCK / S_IFBLK / S_IFIFO ... for the pair being judged


def snap(state, recursive=True, as_bytes=False, root_ent=None):
    from watchdog.utils.dirsnapshot import DirectorySnapshot

    v = VFS(as_bytes=as_bytes) if root_ent is None else VFS(as_bytes=as_bytes, root_ent=root_ent)
    v.special = dict(SPECIAL)
    v.set_state(state)
    return DirectorySnapshot(v.root, recursive=recursive, stat=v.stat, listdir=v.listdir), v


def judge_pair(b: Batch, s0, s1, recursive, as_bytes, tag, root0=None, root1=None):
    from watchdog.utils.dirsnapshot import DirectorySnapshotDiff

    ref, _ = snap(s0, recursive, as_bytes, root0)
    new, _ = snap(s1, recursive, as_bytes, root1)
    if not (difflaws.one_path_per_inode(ref) and difflaws.one_path_per_inode(new)):
        b.count("skipped_precondition")
        return
    if tag == "copy":
        # a snapshot that went through pickle / copy is the same snapshot (they are persisted between runs by applications)
        import copy
        import pickle

        k = (len(s0) + len(s1)) % 3
        ref = pickle.loads(pickle.dumps(ref)) if k != 1 else copy.deepcopy(ref)
        new = copy.copy(new) if k == 0 else (pickle.loads(pickle.dumps(new)) if k == 1 else new)
        b.count("pairs_through_pickle_or_copy")
    b.case()
    d = DirectorySnapshotDiff(ref, new)
    errs = difflaws.check_diff(ref, new, d)
    b.count("diffs_judged")
    if SPECIAL:
        # sockets, block devices, FIFOs are not directories: the snapshot must say so and the diff must list them as files
        b.count("pairs_with_special_files")
        for sn, st_ in ((ref, s0), (new, s1)):
            for rel_, e_ in st_.items():
                if e_.ino in SPECIAL and not e_.isdir:
                    for p_ in sn.paths:
                        if sn.inode(p_) == (e_.ino, e_.dev) and sn.isdir(p_):
                            errs.append(("kind", f"{p_!r} is a special file (mode {SPECIAL[e_.ino]:o}) but isdir() says directory"))
        for name_ in ("dirs_created", "dirs_deleted"):  # (a modified entry may be listed under its old or its new path)
            for p_ in getattr(d, name_):
                sn = new if name_ != "dirs_deleted" else ref
                if p_ in sn.paths and sn.inode(p_)[0] in SPECIAL and not any(e_.isdir for e_ in list(s0.values()) + list(s1.values()) if e_.ino == sn.inode(p_)[0]):
                    errs.append(("kind", f"{name_} lists the special file {p_!r}"))
    dm = DirectorySnapshotDiff(new, ref)
    errs += difflaws.check_mirror(ref, new, d, dm)
    errs += [("mirror-" + l, m) for l, m in difflaws.check_diff(new, ref, dm)]
    b.count("mirrors_judged")
    ds = DirectorySnapshotDiff(ref, ref)
    if not difflaws.is_empty(ds):
        errs.append(("self-diff-empty", repr(ds)))
    b.count("self_diffs_judged")
    _, _, _, _, moved, deleted, created, changed = difflaws.expected(ref, new)
    if s0 != s1 and (moved or (deleted & created) or (created and deleted)):
        b.count("nontrivial_pairs")
        b.nontrivial([sorted(s0.items()), sorted(s1.items()), recursive, as_bytes])
    if moved:
        b.count("pairs_with_moves")
    if changed:
        b.count("pairs_with_modified")
    if len(moved) >= 2 and {(y, x) for x, y in moved} & moved:
        b.count("pairs_with_swaps")
    for law, msg in errs:
        b.violation(
            f"difflaw:{law}",
            msg,
            witness={"ref": sorted(s0.items()), "new": sorted(s1.items()), "recursive": recursive, "bytes": as_bytes,
                     "diff": {k: sorted(getattr(d, k), key=repr) for k in (
                         "files_created", "files_deleted", "files_modified", "files_moved",
                         "dirs_created", "dirs_deleted", "dirs_modified", "dirs_moved")}},
            replay_spec={"kind": "pair", "s0": sorted(s0.items()), "s1": sorted(s1.items()), "recursive": recursive,
                         "bytes": as_bytes, "root0": root0, "root1": root1},
        )
    if tag and moved and len(b.samples) < 2:
        b.sample({"ref": {k: tuple(v) for k, v in s0.items()}, "new": {k: tuple(v) for k, v in s1.items()},
                  "recursive": recursive, "moved": sorted(moved), "created": sorted(created), "deleted": sorted(deleted)})


def judge_device(b: Batch, s0, recursive):
    """ignore_device: a pure change of device id is no change."""
    from watchdog.utils.dirsnapshot import DirectorySnapshotDiff

    s1 = {p: e._replace(dev=7) for p, e in s0.items()}
    ref, _ = snap(s0, recursive)
    new, _ = snap(s1, recursive, root_ent=Ent(1000, 7, True, 0, 0))
    d = DirectorySnapshotDiff(ref, new, ignore_device=True)
    b.count("ignore_device_judged")
    # device change plus real modifications: with ignore_device the modifications (and only they) are reported
    keys = sorted(s0)
    if keys:
        mod = {p for i, p in enumerate(keys) if (i + len(keys)) % 2 == 0}
        s2 = {p: (e._replace(mtime=e.mtime + 1) if p in mod else e) for p, e in s1.items()}
        new2, v2_ = snap(s2, recursive, root_ent=Ent(1000, 7, True, 0, 0))
        d3 = DirectorySnapshotDiff(ref, new2, ignore_device=True)
        c3, x3, m3, mod3 = difflaws.diff_sets(d3)
        want = {v2_.full(q) for q in mod} & set(new2.paths) & set(ref.paths)
        b.count("ignore_device_with_modification_judged")
        if c3 or x3 or m3 or mod3 != want:
            b.violation("difflaw:ignore-device", f"device change + modified {sorted(mod)}: created={sorted(c3)} deleted={sorted(x3)} moved={sorted(m3)} modified={sorted(mod3)} expected modified={sorted(want)}",
                        witness={"ref": sorted(s0.items())}, replay_spec={"kind": "device", "s0": sorted(s0.items()), "recursive": recursive})
    if not difflaws.is_empty(d):
        b.violation("difflaw:ignore-device", f"pure device change produced {d!r}",
                    witness={"ref": sorted(s0.items())}, replay_spec={"kind": "device", "s0": sorted(s0.items()), "recursive": recursive})
    # and without ignore_device everything is replaced (deleted+created), nothing moved/modified
    d2 = DirectorySnapshotDiff(ref, new)
    for law, msg in difflaws.check_diff(ref, new, d2):
        b.violation(f"difflaw:{law}", "device-change pair: " + msg, witness={"ref": sorted(s0.items())},
                    replay_spec={"kind": "device", "s0": sorted(s0.items()), "recursive": recursive})


def judge_entrypoints(b: Batch, s0, s1, recursive):
    """The other public ways of building a diff: snapshot subtraction and the ContextManager (also with ignore_device)."""
    from watchdog.utils.dirsnapshot import DirectorySnapshot, DirectorySnapshotDiff

    ref, _ = snap(s0, recursive)
    new, _ = snap(s1, recursive)
    if not (difflaws.one_path_per_inode(ref) and difflaws.one_path_per_inode(new)):
        return
    wit = {"ref": sorted(s0.items()), "new": sorted(s1.items()), "recursive": recursive}
    rs = {"kind": "entry", "s0": sorted(s0.items()), "s1": sorted(s1.items()), "recursive": recursive}
    d = new - ref
    for law, msg in difflaws.check_diff(ref, new, d):
        b.violation(f"difflaw:sub:{law}", "snapshot subtraction: " + msg, witness=wit, replay_spec=rs)
    b.count("entrypoint_sub_judged")
    for ign in (False, True):
        v = VFS()
        v.set_state(s0)
        cm = DirectorySnapshotDiff.ContextManager(v.root, recursive=recursive, stat=v.stat, listdir=v.listdir, ignore_device=ign)
        with cm:
            if ign:
                v.set_state({p: e._replace(dev=7) for p, e in s0.items()})
                v.root_ent = v.root_ent._replace(dev=7)
            else:
                v.set_state(s1)
        b.count("entrypoint_cm_judged")
        if ign:
            if not difflaws.is_empty(cm.diff):
                b.violation("difflaw:cm:ignore-device", f"ContextManager(ignore_device=True): pure device change gave {cm.diff!r}",
                            witness=wit, replay_spec=rs)
        else:
            for law, msg in difflaws.check_diff(cm.pre_snapshot, cm.post_snapshot, cm.diff):
                b.violation(f"difflaw:cm:{law}", "ContextManager: " + msg, witness=wit, replay_spec=rs)
            if set(cm.pre_snapshot.paths) != set(ref.paths) or set(cm.post_snapshot.paths) != set(new.paths):
                b.violation("difflaw:cm:snapshots", "ContextManager snapshots differ from direct snapshots", witness=wit, replay_spec=rs)


NAMES3 = ["a", "b", "c", "e\u0301"]  # the last one is not in Unicode normal form C: still its own name


def random_state(r: random.Random, pool, maxdepth=3, maxn=7, devs=(0,)):
    st = {}
    dirs = [""]
    n = r.randint(0, maxn)
    ids = r.sample(pool, min(len(pool), n + 1))
    for _ in range(n):
        par = r.choice(dirs)
        depth = 0 if par == "" else par.count("/") + 1
        name = r.choice(NAMES3)
        p = name if par == "" else par + "/" + name
        if p in st or not ids:
            continue
        isdir = r.random() < 0.5 and depth + 1 < maxdepth
        st[p] = Ent(ids.pop(), r.choice(devs), isdir, r.randint(0, 1), r.randint(0, 1))
        if isdir:
            dirs.append(p)
    return st


def mutate_state(r: random.Random, st, pool):
    """Derive a 'new' tree from st by renames/swaps/deletes/creates/modifies so that identities are shared."""
    st = dict(st)
    for _ in range(r.randint(1, 4)):
        op = r.choice(["rename", "swap", "delete", "create", "modify", "replace", "kindflip"])
        keys = sorted(st)
        if op == "create" or not keys:
            used = {(e.ino, e.dev) for e in st.values()}
            free = [i for i in pool if (i, 0) not in used]
            if not free:
                continue
            dirs = [""] + [k for k in keys if st[k].isdir]
            par = r.choice(dirs)
            p = r.choice(NAMES3) if par == "" else par + "/" + r.choice(NAMES3)
            if p in st or p.count("/") > 2:
                continue
            st[p] = Ent(r.choice(free), 0, r.random() < 0.4, r.randint(0, 1), r.randint(0, 1))
        elif op == "modify":
            k = r.choice(keys)
            e = st[k]
            st[k] = e._replace(mtime=e.mtime + 1) if r.random() < 0.5 else e._replace(size=e.size + 1)
        elif op == "delete":
            k = r.choice(keys)
            for q in [q for q in keys if q == k or q.startswith(k + "/")]:
                del st[q]
        elif op == "rename":
            k = r.choice(keys)
            dirs = [""] + [d for d in keys if st[d].isdir and not (d == k or d.startswith(k + "/"))]
            par = r.choice(dirs)
            new = r.choice(NAMES3) if par == "" else par + "/" + r.choice(NAMES3)
            if new in st or new == k or new.startswith(k + "/"):
                continue
            sub = [q for q in keys if q == k or q.startswith(k + "/")]
            depth_extra = max(q.count("/") for q in sub) - k.count("/")
            if new.count("/") + depth_extra > 2:
                continue
            for q in sub:
                st[new + q[len(k):]] = st.pop(q)
        elif op == "swap":
            if len(keys) < 2:
                continue
            k1, k2 = r.sample(keys, 2)
            if k1.startswith(k2 + "/") or k2.startswith(k1 + "/"):
                continue
            if st[k1].isdir or st[k2].isdir:
                # swap identities only (keep subtree shape): legal for same-kind entries
                if st[k1].isdir != st[k2].isdir:
                    continue
            e1, e2 = st[k1], st[k2]
            st[k1], st[k2] = e2, e1
        elif op == "replace":
            k = r.choice(keys)
            used = {(e.ino, e.dev) for e in st.values()}
            free = [i for i in pool if (i, st[k].dev) not in used]
            if free and not st[k].isdir:
                st[k] = st[k]._replace(ino=r.choice(free))
        elif op == "kindflip":
            k = r.choice(keys)
            if not any(q.startswith(k + "/") for q in keys):
                st[k] = st[k]._replace(isdir=not st[k].isdir)
    return st


def root_identity_change(r: random.Random, s0, s1):
    """Root entries for (ref, new) such that the root's inode differs and one of them also names a directory inside the
    other snapshot (where possible)."""
    ROOT = Ent(1000, 0, True, 0, 0)
    d0 = [e for e in s0.values() if e.isdir and e.dev == 0]
    d1 = [e for e in s1.values() if e.isdir and e.dev == 0]
    mode = r.choice(["nest", "unnest", "both", "fresh"])
    if mode == "nest" and d1:
        # old root now lives below the new root
        e = r.choice(d1)
        return Ent(e.ino, 0, True, 0, 0), Ent(2000, 0, True, 0, 0)
    if mode == "unnest" and d0:
        e = r.choice(d0)
        return ROOT, Ent(e.ino, 0, True, 0, 0)
    if mode == "both" and d0 and d1:
        e0, e1 = r.choice(d0), r.choice(d1)
        if e0.ino != e1.ino:
            return Ent(e1.ino, 0, True, 0, 0), Ent(e0.ino, 0, True, 0, 0)
    return ROOT, Ent(2000, 0, True, 1, 0)


def run_invivo(b: Batch, seed, n):
    """Postcondition wrapper on DirectorySnapshotDiff.__init__: every diff the real PollingEmitter builds while hostile
    histories run on the real disk is judged by the same laws (the class itself is patched, so references bound earlier
    - `from ... import DirectorySnapshotDiff` in polling.py - go through the wrapper too; the counter proves it)."""
    from watchdog.utils import dirsnapshot

    from wdverif import fshist
    from wdverif.props import c07

    orig = dirsnapshot.DirectorySnapshotDiff.__init__
    seen = {"n": 0}

    def wrapped(self, ref, snapshot, *, ignore_device=False):
        orig(self, ref, snapshot, ignore_device=ignore_device)
        if ignore_device or isinstance(ref, dirsnapshot.EmptyDirectorySnapshot):
            return
        seen["n"] += 1
        if difflaws.one_path_per_inode(ref) and difflaws.one_path_per_inode(snapshot):
            for law, msg in difflaws.check_diff(ref, snapshot, self):
                b.violation(f"difflaw:invivo:{law}", "diff built by the polling emitter on the real disk: " + msg, witness={"law": law})
            b.count("invivo_diffs_judged")

    dirsnapshot.DirectorySnapshotDiff.__init__ = wrapped
    try:
        r = rng_for(seed, "c09v")
        for i in range(n):
            if b.expired():
                break
            cfg = c07.hostile_cfg(r, seed * 7919 + i, "polling")
            cfg["delete_root"] = False
            fshist.History(cfg).run()
            b.case()
            b.nontrivial(["invivo", seed, i])
    finally:
        dirsnapshot.DirectorySnapshotDiff.__init__ = orig
    if seen["n"] == 0:
        b.inconc("in-vivo wrapper on DirectorySnapshotDiff.__init__ was never reached")


def plan(tier, seed, jobs):
    refs = len(canonical_refs())
    specs = []
    if tier == "quick":
        for i in range(refs):
            specs.append({"kind": "enum", "ref_lo": i, "ref_hi": i + 1, "stride": 3, "offset": (seed + i) % 3, "seed": seed})
        for j in range(jobs * 2):
            specs.append({"kind": "random", "n": 1500, "seed": seed, "j": j, "budget_s": 40})
        for j in range(4):
            specs.append({"kind": "invivo", "n": 25, "seed": seed * 100 + j, "budget_s": 30})
    else:
        for j in range(jobs):
            specs.append({"kind": "invivo", "n": 400, "seed": seed * 100 + j, "budget_s": 300})
        for i in range(refs):
            specs.append({"kind": "enum", "ref_lo": i, "ref_hi": i + 1, "stride": 1, "offset": 0, "seed": seed})
        for j in range(jobs * 6):
            specs.append({"kind": "random", "n": 20000, "seed": seed, "j": j, "budget_s": 400})
    return specs


EXHAUSTIVE = {"thorough": True}


def run_batch(spec):
    b = Batch(spec)
    kind = spec["kind"]
    if kind == "enum":
        refs = canonical_refs()[spec["ref_lo"] : spec["ref_hi"]]
        stride, off = spec["stride"], spec["offset"]
        for s0 in refs:
            judge_device(b, s0, True)
            for idx, s1 in enumerate(new_states()):
                if idx % stride != off:
                    continue
                judge_pair(b, s0, s1, True, False, tag=(idx % 997 == 5))
                if idx % 31 == off:
                    judge_entrypoints(b, s0, s1, True)
        b.add("ref_shapes", repr(sorted(refs[0].items())) if refs else "")
    elif kind == "random":
        r = rng_for(spec["seed"], "c09", spec["j"])
        pool = list(range(1, 9))
        for n in range(spec["n"]):
            if b.expired():
                break
            devs = (0, 1) if r.random() < 0.3 else (0,)
            s0 = random_state(r, pool, devs=devs)
            if len(devs) == 2 and r.random() < 0.5:
                # the same inode NUMBER on two devices (mount points routinely have it) names two different entries
                on0 = [(p_, e_) for p_, e_ in s0.items() if e_.dev == 0]
                on1 = [(p_, e_) for p_, e_ in s0.items() if e_.dev == 1]
                if on0 and on1:
                    (p0_, e0_), (p1_, e1_) = r.choice(on0), r.choice(on1)
                    if not any(e_.ino == e0_.ino and e_.dev == 1 for e_ in s0.values()):
                        s0[p1_] = e1_._replace(ino=e0_.ino)
                        b.count("states_with_same_ino_on_two_devices")
            s1 = mutate_state(r, s0, pool) if r.random() < 0.8 else random_state(r, pool, devs=devs)
            SPECIAL.clear()
            if r.random() < 0.15:
                import stat as _st

                for e_ in list(s0.values()) + list(s1.values()):
                    if not e_.isdir and r.random() < 0.5:
                        SPECIAL[e_.ino] = r.choice([_st.S_IFSOCK, _st.S_IFBLK, _st.S_IFIFO, _st.S_IFCHR])
                for e_ in list(s0.values()) + list(s1.values()):
                    if e_.isdir:
                        SPECIAL.pop(e_.ino, None)
            rec = r.random() < 0.7
            root0 = root1 = None
            if r.random() < 0.15:
                # the root path itself changes identity between the snapshots while its old/new inode stays inside the
                # tree (mv root tmp; mkdir root; mv tmp root/sub - and the inverse)
                root0, root1 = root_identity_change(r, s0, s1)
                b.count("root_identity_pairs")
            judge_pair(b, s0, s1, rec, r.random() < 0.3, tag=("copy" if n % 7 == 3 else n % 500 == 0), root0=root0, root1=root1)
            if n % 10 == 0:
                judge_device(b, s0, rec)
                judge_entrypoints(b, s0, s1, rec)
    elif kind == "invivo":
        run_invivo(b, spec["seed"], spec["n"])
    elif kind == "pair":
        s0 = {k: Ent(*v) for k, v in spec["s0"]}
        s1 = {k: Ent(*v) for k, v in spec["s1"]}
        ro = [Ent(*x) if x else None for x in (spec.get("root0"), spec.get("root1"))]
        judge_pair(b, s0, s1, spec["recursive"], spec["bytes"], tag=True, root0=ro[0], root1=ro[1])
    elif kind == "entry":
        judge_entrypoints(b, {k: Ent(*v) for k, v in spec["s0"]}, {k: Ent(*v) for k, v in spec["s1"]}, spec["recursive"])
    elif kind == "device":
        judge_device(b, {k: Ent(*v) for k, v in spec["s0"]}, spec["recursive"])
    return b.to_dict()
