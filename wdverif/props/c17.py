"""C17 - delay queue: FIFO, never early, loses or duplicates nothing; close() unblocks.

Real DelayedQueue on a virtual clock (delayed_queue.time) with a waiter-counting Condition (delayed_queue.threading).
A driver issues put/remove/get/close/advance only at exact quiescence; an offline checker judges the log of
(op, result, virtual call time, virtual return time).  Directed holds park the consumer / remover / closer / producer
at every executed line of get/remove/close/put while the other operations of the script run.
"""

from __future__ import annotations

import itertools
import queue as stdqueue
import threading
import time

from wdverif.env import vclock
from wdverif.instrument import Hold, Instr
from wdverif.monitors import Batch, rng_for

ID = "C17"
LEVEL = "exploration"
RULE = (
    "case = driver script over {put(delayed), put(undelayed), get, remove(hit/miss), advance(dt in {0,d-e,d,d+e,2d}), close} "
    "(all scripts up to a length bound, random ones to 30 ops) executed against the real DelayedQueue on a virtual clock, "
    "optionally with a directed hold (role, line, n-th arrival).  Non-trivial iff >=1 delayed put and (a remove or close "
    "overlapping a pending get, or a hold that was reached); distinct by canonical hash of script + hold plan."
)
ASSUMPTIONS = [
    "time.time/time.sleep and threading.Condition as seen by watchdog.utils.delayed_queue are replaced by a virtual clock and a "
    "waiter-counting subclass; the queue code itself is unmodified",
    "'available immediately' is judged for get() calls relative to the latest deadline of delayed elements that were ahead "
    "of the element during that call (a consumer already sleeping on a head that is then removed sleeps that delay out: "
    "this latency is not counted as a violation of the statement)",
    "schedules: exact sequential quiescence + single directed preemptions at line granularity; multi-preemption only sampled",
]
MINIMUMS = {
    "quick": {"scripts_judged": 3000, "hold_cases_reached": 100, "close_unblocks_judged": 500},
    "thorough": {"scripts_judged": 100000, "hold_cases_reached": 3000},
}
WALL_CAP = {"quick": 150, "thorough": 2400}

D = 0.5
EPS = 2.0**-10
GAPS = [0.0, D - EPS, D, D + EPS, 2 * D]


class Stuck(Exception):
    pass


_SEQ = itertools.count(1)


class E:
    """An element identified by VALUE; the rig keeps no reference to the objects it puts (ephemeral mode), so an element
    that was handed out or removed really is gone - a later element may get the same address."""
    __slots__ = ("v",)

    def __init__(self, v):
        self.v = v

    def __eq__(self, other):
        return (other.v if isinstance(other, E) else other) == self.v

    def __hash__(self):
        return hash(self.v)

    def __repr__(self):
        return f"E({self.v})"


class T(E):
    """A twin: all twins of a script are EQUAL (``==``, same hash) but each is its own object with its own identity ``uid`` -
    like two inotify records of the same change.  The queue must tell them apart by identity."""
    __slots__ = ("uid",)

    def __init__(self, v, uid):
        self.v = v
        self.uid = uid

    def __eq__(self, other):
        return isinstance(other, T) and other.v == self.v

    def __hash__(self):
        return hash(("T", self.v))

    def __repr__(self):
        return f"T({self.v}#{self.uid})"


def _val(x):
    if isinstance(x, T):
        return x.uid
    return x.v if isinstance(x, E) else x


class Rig:
    ephemeral = False
    twins = False

    def _mk(self, eid):
        if self.twins:
            return T(0, eid)
        return E(eid) if self.ephemeral else eid

    def _pred(self, target):
        if self.twins:
            return lambda e: _val(e) == target
        return lambda e: e == target

    def __init__(self, delay=D, instr: Instr | None = None):
        from watchdog.utils.delayed_queue import DelayedQueue

        cp, tp = vclock.install()
        cp.clock = vclock.VClock()
        self.clock = cp.clock
        n0 = len(tp.conditions)
        self.q = DelayedQueue(delay)
        self.cond = tp.conditions[n0] if len(tp.conditions) > n0 else None
        self.delay = delay
        self.instr = instr
        self.log: list[dict] = []
        self.loglock = threading.Lock()
        self.cmd: stdqueue.Queue = stdqueue.Queue()
        self.state = "IDLE"
        self.pending_get = None
        self.op_threads: list[threading.Thread] = []
        self.hold: Hold | None = None
        self.consumer = threading.Thread(target=self._consume, name="wdv-consumer", daemon=True)
        self.consumer.start()
        self.next_id = 0
        self.inserted: dict[int, tuple[float, bool]] = {}
        self.closed_at = None
        self.put_rec: dict[int, dict] = {}

    # ---- consumer
    def _consume(self):
        while True:
            c = self.cmd.get()
            if c is None:
                return
            rec = {"op": "get", "vt_call": self.clock.now, "seq": c, "seq_call": next(_SEQ)}
            try:
                rec["result"] = _val(self.q.get())
            except BaseException as e:  # noqa: BLE001
                rec["exc"] = repr(e)
            rec["vt_ret"] = self.clock.now
            rec["seq_ret"] = next(_SEQ)
            with self.loglock:
                self.log.append(rec)
            self.state = "IDLE"

    def get_async(self):
        if self.state == "IDLE":
            self.state = "BUSY"
            self.cmd.put(len(self.log))
            return True
        return False

    # ---- quiescence
    def _thread_quiet(self, t: threading.Thread) -> bool:
        if not t.is_alive():
            return True
        h = self.hold
        if h is not None and h.reached.is_set() and not h._release.is_set() and h.thread is t:
            return True
        return t in self.clock.sleepers

    def consumer_quiet(self) -> bool:
        if self.state == "IDLE":
            return True
        if self.cond is not None and self.cond.truly_parked() >= 1:
            return True
        return self._thread_quiet(self.consumer) and self.consumer.is_alive()

    def settle(self, wall=8.0, allow_blocked=False):
        """Wait for logical quiescence.  allow_blocked: op threads that make no progress for 0.1 s count as blocked."""
        t_end = time.monotonic() + wall
        t_block = time.monotonic() + 0.12
        while True:
            ops_quiet = all(self._thread_quiet(t) for t in self.op_threads)
            if ops_quiet and self.consumer_quiet():
                # double check after a yield: state must be stable
                time.sleep(0)
                if all(self._thread_quiet(t) for t in self.op_threads) and self.consumer_quiet():
                    return True
            if allow_blocked and time.monotonic() > t_block:
                return False
            if time.monotonic() > t_end:
                raise Stuck("no quiescence")
            time.sleep(0)

    # ---- driver ops
    def do(self, kind, fn, wait=True, allow_blocked=False):
        rec = {"op": kind, "vt_call": self.clock.now, "seq_call": next(_SEQ)}

        def run():
            try:
                rec["result"] = _val(fn())
            except BaseException as e:  # noqa: BLE001
                rec["exc"] = repr(e)
            rec["vt_ret"] = self.clock.now
            rec["seq_ret"] = next(_SEQ)
            with self.loglock:
                self.log.append(rec)

        t = threading.Thread(target=run, name=f"wdv-{kind}", daemon=True)
        self.op_threads.append(t)
        t.start()
        if wait:
            self.settle(allow_blocked=allow_blocked)
        return rec

    def put(self, delayed, **kw):
        eid = self.next_id
        self.next_id += 1
        self.inserted[eid] = (self.clock.now, delayed)
        rec = self.do("put", lambda: self.q.put(self._mk(eid), delay=delayed), **kw)
        rec["elem"] = eid
        rec["delayed"] = delayed
        self.put_rec[eid] = rec
        return eid

    def remove(self, target, **kw):
        rec = self.do("remove", lambda: self.q.remove(self._pred(target)), **kw)
        rec["target"] = target
        return rec

    def replace(self, target, **kw):
        """remove(target) and, with nothing allocated in between, put a brand-new delayed element (ephemeral mode: the new
        object is likely to get the address of the one that has just gone)."""
        eid = self.next_id
        self.next_id += 1
        self.inserted[eid] = (self.clock.now, True)
        prec = {"op": "put", "vt_call": self.clock.now, "seq_call": None, "elem": eid, "delayed": True, "vt_ret": None, "seq_ret": None}
        self.put_rec[eid] = prec

        def fn():
            x = self.q.remove(self._pred(target))
            v = _val(x)
            del x
            self.q.put(self._mk(eid), delay=True)
            prec["seq_call"] = next(_SEQ)
            prec["vt_ret"] = self.clock.now
            prec["seq_ret"] = next(_SEQ)
            with self.loglock:
                self.log.append(prec)
            return v

        rec = self.do("remove", fn, **kw)
        rec["target"] = target
        return eid

    def remove_raising(self, **kw):
        """remove() with a predicate that raises on the first element it is shown: the error is the caller's, the queue must
        stay usable."""
        def bad(e):
            raise ZeroDivisionError("predicate failed")

        rec = self.do("remove", lambda: self.q.remove(bad), **kw)
        rec["expected_exc"] = True
        return rec

    def close(self, **kw):
        rec = self.do("close", lambda: self.q.close(), **kw)
        self.closed_at = self.clock.now
        return rec

    def advance(self, dt, allow_blocked=False):
        # step through every sleeper deadline on the way: virtual time is continuous for the sleepers
        target = self.clock.now + dt
        while True:
            nd = self.clock.next_deadline()
            if nd is None or nd >= target:
                break
            self.clock.advance_to(nd)
            self.settle(allow_blocked=allow_blocked)
        self.clock.advance_to(target)
        with self.loglock:
            self.log.append({"op": "adv", "dt": dt, "vt_call": self.clock.now, "vt_ret": self.clock.now})
        self.settle(allow_blocked=allow_blocked)

    def shutdown(self):
        self.cmd.put(None)
        if not self.q._closed:
            # in a helper thread: a queue whose lock was leaked would block the worker for ever
            t = threading.Thread(target=lambda: self.q.close(), name="wdv-shutdown", daemon=True)
            t.start()
            t.join(1.0)
        self.clock.advance(1e6)


def handed_out(log):
    out = []
    for r in log:
        if r["op"] in ("get", "remove") and r.get("result") is not None:
            out.append((r["result"], r["op"], r.get("seq_ret", 10**18)))
    return out


def run_script(b: Batch, script, hold_plan=None, instr=None, ctx=None):
    """script: list of ops.  Returns after judging.  Ops: ('put',delayed) ('get',) ('remove',k: k-th oldest live elem or -1 miss)
    ('adv',dt) ('close',)"""
    rig = Rig(instr=instr)
    rig.ephemeral = bool((ctx or {}).get("ephemeral"))
    rig.twins = bool((ctx or {}).get("twins"))
    if rig.twins:
        b.count("scripts_with_equal_but_distinct_elements")
    if rig.ephemeral:
        b.count("scripts_with_ephemeral_elements")
    concurrent = hold_plan is not None
    rs = {"kind": "script1", "script": script, "hold": hold_plan}
    wit = {"script": script, "hold": hold_plan, "ctx": ctx}
    b.case()
    reached = False
    closed = False
    raised_pred = False
    live_model: list[int] = []  # inserted and not known handed out (driver's view, for choosing remove targets)
    arm_at = hold_plan.get("arm_at", 0) if hold_plan else None
    try:
        try:
            for i, op in enumerate(script):
                if concurrent and i == arm_at and rig.hold is None:
                    rig.hold = instr.add_hold(Hold(hold_plan["role"], hold_plan["qualname"], hold_plan["line"], nth=hold_plan.get("nth", 1), timeout=6.0))
                ab = concurrent
                if op[0] == "put":
                    live_model.append(rig.put(op[1], allow_blocked=ab))
                elif op[0] == "get":
                    rig.get_async()
                    rig.settle(allow_blocked=ab)
                elif op[0] == "remove":
                    done = {x for x, _, _ in handed_out(rig.log)}
                    cands = [e for e in live_model if e not in done]
                    tgt = cands[op[1]] if 0 <= op[1] < len(cands) else -1
                    rig.remove(tgt, allow_blocked=ab)
                elif op[0] == "remove_raise":
                    raised_pred = True
                    rig.remove_raising(allow_blocked=ab)
                elif op[0] == "replace":
                    done = {x for x, _, _ in handed_out(rig.log)}
                    cands = [e for e in live_model if e not in done]
                    tgt = cands[op[1]] if 0 <= op[1] < len(cands) else -1
                    live_model.append(rig.replace(tgt, allow_blocked=ab))
                elif op[0] == "adv":
                    rig.advance(op[1], allow_blocked=concurrent)
                elif op[0] == "close":
                    rig.close(allow_blocked=ab)
                    closed = True
            if rig.hold is not None:
                reached = rig.hold.reached.is_set()
                rig.hold.release()
                rig.settle()
            # ---- finish phase: drain everything (if not closed), then close, then a late get
            guard = 0
            while not closed:
                guard += 1
                if guard > 200:
                    raise Stuck("finish phase does not terminate")
                rig.get_async()
                rig.settle()
                if rig.state == "IDLE":
                    continue
                nd = rig.clock.next_deadline()
                if nd is not None:
                    rig.clock.advance_to(nd)
                    rig.settle()
                    continue
                # consumer parked in the condition: queue must be empty
                break
            if not closed:
                done = {x for x, _, _ in handed_out(rig.log)}
                missing = [e for e in rig.inserted if e not in done]
                if missing:
                    b.violation("lost-or-stuck", f"consumer parked in the condition while elements {missing} were never handed out",
                                witness=dict(wit, log=_fmt(rig.log)), replay_spec=rs)
                    return
                pending = rig.state == "BUSY"
                rig.close()
                b.count("close_unblocks_judged")
                if pending and rig.state != "IDLE":
                    b.violation("close-does-not-unblock", "close() returned and the blocked get() is still parked",
                                witness=dict(wit, log=_fmt(rig.log)), replay_spec=rs)
                    return
            else:
                # closed inside the script: a pending get must have returned by now (after settle)
                nd = rig.clock.next_deadline()
                while nd is not None:
                    rig.clock.advance_to(nd)
                    rig.settle()
                    nd = rig.clock.next_deadline()
                b.count("close_unblocks_judged")
                if rig.state != "IDLE":
                    b.violation("close-does-not-unblock", "close() returned and the blocked get() is still parked",
                                witness=dict(wit, log=_fmt(rig.log)), replay_spec=rs)
                    return
            n_before = len(rig.log)
            rig.get_async()
            rig.settle()
            late = [r for r in rig.log[n_before:] if r["op"] == "get"]
            if rig.state != "IDLE" or not late or late[-1].get("result") is not None or "exc" in late[-1]:
                b.violation("get-after-close", f"get() after close() did not return the end marker: {late!r} state={rig.state}",
                            witness=dict(wit, log=_fmt(rig.log)), replay_spec=rs)
                return
        except Stuck as e:
            if raised_pred and not concurrent:
                b.violation("queue-unusable-after-predicate-raised", f"after remove() was given a raising predicate the next operation never finished ({e}); script={script}",
                            witness=dict(wit, log=_fmt(rig.log)), replay_spec=rs)
                return
            b.inconc(f"C17 rig stuck ({e}); script={script} hold={hold_plan}")
            return
    finally:
        if instr is not None:
            instr.clear_holds()
        rig.hold = None
        rig.shutdown()

    log = rig.log
    # ---------------------------------------------------------------- offline checker
    errs = []
    for r in log:
        if "exc" in r and not (r.get("expected_exc") and "ZeroDivisionError" in r["exc"]):
            errs.append(("op-raised", f"{r['op']} raised {r['exc']}"))
    close_calls = [r["seq_call"] for r in log if r["op"] == "close"]
    for r in log:
        if r["op"] == "get" and "exc" not in r and r.get("result") is None:
            if not close_calls or r["seq_ret"] < min(close_calls):
                errs.append(("end-marker-without-close", "get() returned the end marker although close() had not been called"))
    outs = handed_out(log)
    ids = [x for x, _, _ in outs]
    if len(ids) != len(set(ids)):
        dup = sorted({x for x in ids if ids.count(x) > 1})
        how = {x: [o for y, o, _ in outs if y == x] for x in dup}
        errs.append(("handed-out-twice", f"elements handed out more than once: {how}"))
    if not set(ids) <= set(rig.inserted):
        errs.append(("phantom-element", f"handed out {set(ids) - set(rig.inserted)} never inserted"))
    getrecs = sorted((r for r in log if r["op"] == "get" and r.get("result") is not None), key=lambda r: r["seq_ret"])
    gets = [(r["result"], r["vt_call"], r["vt_ret"]) for r in getrecs]
    get_seq_call = {r["result"]: r["seq_call"] for r in getrecs}
    seq = [x for x, _, _ in gets]
    for i, x in enumerate(seq):
        for y in seq[i + 1 :]:
            px, py = rig.put_rec.get(x), rig.put_rec.get(y)
            if px and py and py.get("seq_ret", 10**18) < px["seq_call"]:
                errs.append(("fifo", f"get() order {seq}: {x} came out before {y} although put({y}) returned before put({x}) was called"))
    if not closed_in_script(script):
        miss = [e for e in rig.inserted if e not in ids]
        if miss:
            errs.append(("lost", f"elements {miss} never handed out although the clock passed every deadline"))
    for x, vt_call, vt_ret in gets:
        if x not in rig.inserted:
            continue
        ins, delayed = rig.inserted[x]
        if delayed and vt_ret < ins + rig.delay:
            errs.append(("early", f"delayed element {x} inserted at {ins} returned at {vt_ret} < {ins + rig.delay}"))
    if not concurrent:
        # 'available immediately' (sequential mode only, see ASSUMPTIONS)
        out_time = {x: t for x, _, t in outs}
        for x, vt_call, vt_ret in gets:
            ins, delayed = rig.inserted[x]
            if delayed:
                continue
            bound = max(vt_call, ins)
            for d, (dins, ddel) in rig.inserted.items():
                if ddel and d < x and out_time.get(d, 10**18) > get_seq_call[x]:
                    bound = max(bound, dins + rig.delay)
            b.count("undelayed_latency_judged")
            if vt_ret > bound:
                errs.append(("undelayed-late", f"undelayed element {x} (inserted {ins}, get called {vt_call}) returned at {vt_ret} > {bound}"))
        # late delivery of delayed elements: informational
        for x, vt_call, vt_ret in gets:
            ins, delayed = rig.inserted[x]
            if delayed:
                bound = max(vt_call, ins + rig.delay)
                for d, (dins, ddel) in rig.inserted.items():
                    if ddel and d < x:
                        bound = max(bound, dins + rig.delay)
                if vt_ret > bound:
                    b.count("info_delayed_element_later_than_needed")
    b.count("scripts_judged")
    b.count("elements_judged", len(rig.inserted))
    nd = sum(1 for _, d in rig.inserted.values() if d)
    overlap = any(op[0] in ("remove", "close") for op in script) and any(op[0] == "get" for op in script)
    if concurrent:
        b.count("hold_cases_reached" if reached else "hold_cases_not_reached")
        if reached:
            b.add("hold_points_reached", f"{hold_plan['role']}:{hold_plan['qualname']}:{hold_plan['line']}")
    if nd and (overlap or reached):
        b.nontrivial([script, hold_plan])
    for mech, msg in errs:
        b.violation(mech, msg + f"  script={script} hold={hold_plan}", witness=dict(wit, log=_fmt(log)), replay_spec=rs)


def closed_in_script(script):
    return any(op[0] == "close" for op in script)


def _fmt(log):
    return [{k: v for k, v in r.items()} for r in log]


# ------------------------------------------------------------------------------------------------ generators
ALPHA = [("put", True), ("put", False), ("get",), ("remove", 0), ("remove", 1), ("remove", -1), ("close",)] + [("adv", g) for g in GAPS[1:]]


def rand_script(r, n):
    s = []
    for _ in range(n):
        x = r.random()
        if x < 0.3:
            s.append(("put", r.random() < 0.6))
        elif x < 0.5:
            s.append(("get",))
        elif x < 0.65:
            s.append(("remove", r.choice([0, 0, 1, 2, -1])))
        elif x < 0.97:
            s.append(("adv", r.choice(GAPS + [EPS, D / 2])))
        else:
            s.append(("close",))
    return s


def instr_for(seed):
    from watchdog.utils.delayed_queue import DelayedQueue

    ins = Instr(seed=seed)
    ins.watch(DelayedQueue.get, DelayedQueue.put, DelayedQueue.remove, DelayedQueue.close)
    # the stdlib wait(): lets a hold park the consumer after it was notified and before it re-takes the queue's lock
    # (the window of a "stolen wake-up")
    ins.watch(threading.Condition.wait)
    return ins


ROLE_KIND = {"wdv-consumer": "get", "wdv-put": "put", "wdv-remove": "remove", "wdv-close": "close"}


def discover(seed):
    ins = instr_for(seed)
    ins.discover = True
    b = Batch()
    r = rng_for(seed, "c17disc")
    with ins:
        for _ in range(25):
            run_script(b, rand_script(r, 12), instr=ins)
    pts = []
    for role, qn, line in ins.points:
        kind = ROLE_KIND.get(role)
        if kind and qn == f"DelayedQueue.{kind}":
            pts.append((role, qn, line))
        elif role == "wdv-consumer" and qn == "Condition.wait" and isinstance(line, int):
            pts.append((role, qn, line))
    return sorted(pts, key=lambda t: (t[0], t[1], str(t[2])))


def hold_script(r, role):
    """prefix builds a state; after arming, the script contains the role's own operation and partner operations."""
    pre = [("put", True)] if r.random() < 0.7 else []
    pre += rand_script(r, r.randint(1, 5))
    pre = [op for op in pre if op[0] != "close"]
    if role == "wdv-consumer" and r.random() < 0.5:
        # stolen wake-up template: the consumer waits on an empty queue, is notified by a put and parked before it re-takes
        # the lock, while a remove() takes the element away
        pre = [("get",)]
        post = [("put", r.random() < 0.5), ("remove", 0)] + ([("put", False)] if r.random() < 0.5 else []) + [("adv", 2 * D)]
        return pre + post, len(pre)
    kind = ROLE_KIND[role]
    own = {"get": ("get",), "put": ("put", r.random() < 0.5), "remove": ("remove", r.choice([0, 1, 1])), "close": ("close",)}[kind]
    partners = []
    for _ in range(r.randint(1, 3)):
        x = r.random()
        if x < 0.3:
            partners.append(("put", r.random() < 0.5))
        elif x < 0.5:
            partners.append(("remove", r.choice([0, 0, 1])))
        elif x < 0.8:
            partners.append(("adv", r.choice([D, D + EPS, 2 * D])))
        elif x < 0.9:
            partners.append(("get",))
        else:
            partners.append(("close",))
    if kind == "get":
        post = [own] + partners
    else:
        post = [("get",)] + ([own] + partners if r.random() < 0.5 else partners[:1] + [own] + partners[1:])
    return pre + post, len(pre)


def plan(tier, seed, jobs):
    specs = [{"kind": "bulk", "n": 40000 if tier == "quick" else 300000}]
    if tier == "quick":
        for a in range(len(ALPHA)):
            specs.append({"kind": "enum", "len": 4, "first": a})
        for j in range(jobs):
            specs.append({"kind": "random", "n": 400, "seed": seed, "j": j, "budget_s": 30})
        for j in range(jobs):
            specs.append({"kind": "holds", "n": 70, "seed": seed, "j": j, "budget_s": 45})
    else:
        for a in range(len(ALPHA)):
            for a2 in range(len(ALPHA)):
                specs.append({"kind": "enum", "len": 5, "first": a, "second": a2})
        for j in range(jobs * 3):
            specs.append({"kind": "random", "n": 8000, "seed": seed, "j": j, "budget_s": 400})
        for j in range(jobs * 3):
            specs.append({"kind": "holds", "n": 1500, "seed": seed, "j": j, "budget_s": 500})
    return specs


def run_bulk(b: Batch, n):
    """A producer far ahead of the consumer: tens of thousands of elements wait at once; every one comes out, in order."""
    from watchdog.utils.delayed_queue import DelayedQueue

    for delayed_every in (0, 7):
        q = DelayedQueue(0.001)
        for i in range(n):
            q.put(i, delay=bool(delayed_every and i % delayed_every == 0))
        got = []
        done = threading.Event()

        def consume():
            for _ in range(n):
                x = q.get()
                if x is None:
                    break
                got.append(x)
            done.set()

        t = threading.Thread(target=consume, name="wdv-bulk-consumer", daemon=True)
        t.start()
        ok = done.wait(40)
        q.close()
        t.join(5)
        b.case()
        b.count("bulk_elements", n)
        b.nontrivial(["bulk", n, delayed_every])
        if not ok:
            b.violation("lost-or-stuck", f"bulk: {n} elements were put, the consumer received {len(got)} and then blocked", witness={"n": n, "got": len(got)})
        elif got != list(range(n)):
            first_bad = next((i for i, x in enumerate(got) if x != i), len(got))
            b.violation("lost-or-stuck" if len(got) < n else "order", f"bulk: {n} elements put, {len(got)} received; first difference at position {first_bad} (got {got[first_bad:first_bad + 3]})",
                        witness={"n": n, "got": len(got)})


def run_batch(spec):
    b = Batch(spec)
    kind = spec["kind"]
    if kind == "enum":
        fixed = [ALPHA[spec["first"]]] + ([ALPHA[spec["second"]]] if "second" in spec else [])
        for n in range(0, spec["len"] - len(fixed) + 1):
            for tail in itertools.product(ALPHA, repeat=n):
                s = fixed + list(tail)
                if sum(1 for op in s if op[0] == "close") > 1:
                    continue
                run_script(b, s)
        b.sample({"script": [list(x) for x in fixed + [("put", True), ("get",), ("adv", D - EPS)]], "mode": "enumerated"})
    elif kind == "random":
        r = rng_for(spec["seed"], "c17", spec["j"])
        for n in range(spec["n"]):
            if b.expired():
                break
            s = rand_script(r, r.randint(5, 30))
            run_script(b, s, ctx={"ephemeral": n % 3 == 1, "twins": n % 3 == 2})
            if n % 25 == 7:
                # directed: the consumer waits on a delayed head; the head is removed and gone; a brand-new delayed element
                # takes its place; the old head's delay ends - the newcomer must not come out before its own delay
                for gap in (0.0, EPS, D / 2):
                    run_script(b, [("put", True), ("get",), ("adv", D / 2), ("remove", 0), ("adv", gap), ("put", True), ("adv", D / 2 + EPS), ("adv", D)],
                               ctx={"ephemeral": True})
                    run_script(b, [("put", True), ("get",), ("adv", D / 2 - gap / 2), ("replace", 0), ("adv", D / 2 + EPS), ("adv", D)], ctx={"ephemeral": True})
                run_script(b, [("put", False), ("put", True), ("remove_raise",), ("put", False), ("get",), ("remove", 0), ("adv", D)])
                # the head the consumer sleeps on is removed and an EQUAL, distinct element takes its place
                for gap in (EPS, D / 2, D - EPS):
                    run_script(b, [("put", True), ("adv", gap), ("put", True), ("get",), ("adv", (D - gap) / 2), ("remove", 0), ("adv", D), ("get",), ("adv", D)], ctx={"twins": True})
                    run_script(b, [("put", True), ("get",), ("adv", gap), ("put", True), ("remove", 0), ("adv", D - gap), ("adv", gap + EPS), ("get",), ("adv", D)], ctx={"twins": True})
                run_script(b, [("put", True), ("remove_raise",), ("adv", D), ("get",), ("put", True), ("close",)])
            if n == 0:
                b.sample({"script": [list(x) for x in s], "mode": "random"})
    elif kind == "holds":
        r = rng_for(spec["seed"], "c17h", spec["j"])
        pts = discover(spec["seed"])
        for p in pts:
            b.add("hold_points_planned", f"{p[0]}:{p[1]}:{p[2]}")
        if not pts:
            b.inconc("no DelayedQueue lines discovered")
            return b.to_dict()
        ins = instr_for(spec["seed"] + spec["j"])
        with ins:
            n = 0
            while n < spec["n"] and not b.expired():
                for role, qn, line in pts:
                    if n >= spec["n"] or b.expired():
                        break
                    n += 1
                    s, arm = hold_script(r, role)
                    hp = {"role": role, "qualname": qn, "line": line, "nth": r.choice([1, 1, 2]), "arm_at": arm}
                    run_script(b, s, hold_plan=hp, instr=ins, ctx={"mode": "hold"})
                    if n == 1:
                        b.sample({"script": [list(x) for x in s], "hold": hp})
    elif kind == "bulk":
        run_bulk(b, spec.get("n", 40000))
    elif kind == "script1":
        s = [tuple(x) for x in spec["script"]]
        if spec.get("hold"):
            ins = instr_for(0)
            with ins:
                for _ in range(5):
                    run_script(b, s, hold_plan=spec["hold"], instr=ins, ctx={"mode": "replay"})
        else:
            run_script(b, s)
    return b.to_dict()
