"""C08 - a rename arrives as one paired move; no native event is lost or duplicated.

Real InotifyBuffer + real Inotify over a simulated kernel (env/simkernel.py), DelayedQueue on the virtual clock
(env/vclock.py).  A script releases native records in chosen batches with chosen virtual-time gaps; a consumer thread loops on
read_event(); an offline checker judges the consumer's log (item, virtual return time) against the script."""

from __future__ import annotations

import itertools
import threading
import time

from wdverif.env import simkernel, vclock
from wdverif.env.simkernel import IN_ATTRIB, IN_CREATE, IN_IGNORED, IN_MODIFY, IN_MOVED_FROM, IN_MOVED_TO, pack
from wdverif.instrument import Hold, Instr
from wdverif.monitors import Batch, rng_for

ID = "C08"
LEVEL = "exploration"
RULE = (
    "case = (native sequence over {F1,T1,F2,T2,X,Y,IGNORED}: moves with/without partner, interleaved others; a cut into read batches; "
    "a virtual-time gap from {0, d-e, d, d+e, 2d} after each batch; read size large or small; optional directed hold).  All sequences up "
    "to length 4 with all cuts (thorough 5, quick strided) + random longer ones.  Non-trivial iff >=1 cookie pair or unmatched half "
    "and >=2 batches; distinct by (sequence, cuts, gaps, read size, hold)."
)
ASSUMPTIONS = [
    "the kernel is simulated at the module-global names of watchdog.observers.inotify_c (records packed like struct inotify_event, "
    "whole records per read); the classes above it are the real ones",
    "virtual time advances only at exact quiescence (reader parked in poll, consumer parked in the queue's condition or in the virtual "
    "sleep); a second half released exactly at first-half-insert + delay is undetermined (either outcome accepted)",
    "the consumer is eager (always blocked in read_event()); pairing later than the delay by a lazy consumer is not judged",
]
MINIMUMS = {"quick": {"scripts_judged": 2000, "cross_batch_pairs": 200, "hold_cases_reached": 50},
            "thorough": {"scripts_judged": 60000, "cross_batch_pairs": 5000, "hold_cases_reached": 1000}}
WALL_CAP = {"quick": 170, "thorough": 3000}

D = 0.5
EPS = 2.0**-10
GAPS = [0.0, D - EPS, D, D + EPS, 2 * D]
ALPHA = ["F1", "T1", "F2", "T2", "X", "Y", "S", "IGN"]
ROOT = b"/sim/root"
SUB = b"/sim/root/sub"


class Stuck(Exception):
    pass


class Rig:
    def __init__(self, inst: simkernel.Installed, read_size=None):
        from watchdog.observers import inotify_c
        from watchdog.observers.inotify_buffer import InotifyBuffer

        self.k = inst.fresh()
        self.inst = inst
        cp, tp = vclock.install()
        cp.clock = vclock.VClock()
        self.clock = cp.clock
        n0 = len(tp.conditions)
        InotifyBuffer.delay = D
        inotify_c.Inotify.read_events.__kwdefaults__["event_buffer_size"] = read_size or inotify_c.DEFAULT_EVENT_BUFFER_SIZE
        self.buf = InotifyBuffer(ROOT, recursive=False)
        self.cond = tp.conditions[n0]
        self.ino = self.buf._inotify
        self.ifd = self.ino.fd
        self.wd_root = 1
        self.ino.add_watch(SUB)
        self.wd_sub = [wd for wd, p in self.k.fds[self.ifd]["watches"].items() if p == SUB][0]
        self.log: list[tuple[object, float]] = []
        self.done = False
        self.consumer = threading.Thread(target=self._consume, name="wdv-consumer", daemon=True)
        self.consumer.start()
        self.hold = None

    def _consume(self):
        while True:
            it = self.buf.read_event()
            if it is None:
                self.done = True
                return
            self.log.append((it, self.clock.now))

    def _held(self, t):
        h = self.hold
        return h is not None and h.reached.is_set() and not h._release.is_set() and h.thread is t

    def quiet(self):
        reader_ok = (not self.buf.is_alive()) or self._held(self.buf) or any(p.parked for p in self.inst.sel.pollers)
        if not reader_ok or self.k.pending(self.ifd):
            return False
        return self.done or self._held(self.consumer) or self.cond.truly_parked() >= 1 or self.consumer in self.clock.sleepers

    def settle(self, wall=8.0, allow_blocked=False):
        end = time.monotonic() + wall
        blk = time.monotonic() + 0.15
        while True:
            if self.quiet():
                time.sleep(0)
                if self.quiet():
                    return True
            if allow_blocked and time.monotonic() > blk:
                return False
            if time.monotonic() > end:
                raise Stuck("no quiescence")
            time.sleep(0)

    def advance(self, dt, allow_blocked=False):
        target = self.clock.now + dt
        while True:
            nd = self.clock.next_deadline()
            if nd is None or nd >= target:
                break
            self.clock.advance_to(nd)
            self.settle(allow_blocked=allow_blocked)
        self.clock.advance_to(target)
        self.settle(allow_blocked=allow_blocked)

    def drain_all(self):
        guard = 0
        while True:
            guard += 1
            if guard > 100:
                raise Stuck("drain does not terminate")
            self.settle()
            nd = self.clock.next_deadline()
            if nd is None:
                return
            self.clock.advance_to(nd)

    def close(self):
        from watchdog.observers import inotify_c

        t = threading.Thread(target=self.buf.close, name="wdv-closer", daemon=True)
        t.start()
        t.join(10)
        hung = t.is_alive()
        self.clock.advance(1e6)
        self.consumer.join(5)
        inotify_c.Inotify.read_events.__kwdefaults__["event_buffer_size"] = inotify_c.DEFAULT_EVENT_BUFFER_SIZE
        return hung or self.consumer.is_alive()


def encode(rig: Rig, sym, idx):
    name = f"n{idx}".encode()
    # the pair with cookie 2 is the rename of a directory (IN_ISDIR set on both halves), the pair with cookie 1 that of a file
    isdir = 0x40000000 if sym[1:] == "2" else 0
    if sym in ("F1", "F2"):
        return pack(rig.wd_root, IN_MOVED_FROM | isdir, 100 + int(sym[1]), name)
    if sym in ("T1", "T2"):
        return pack(rig.wd_root, IN_MOVED_TO | isdir, 100 + int(sym[1]), name)
    if sym == "X":
        return pack(rig.wd_root, IN_CREATE, 0, name)
    if sym == "Y":
        return pack(rig.wd_root, IN_MODIFY, 0, name)
    if sym == "S":
        # an event about the watched object itself: no name, exactly 16 bytes (the index travels in the cookie field)
        return pack(rig.wd_root, IN_ATTRIB, 5000 + idx, b"")
    if sym == "IGN":
        return pack(rig.wd_sub, IN_IGNORED, 0, b"")
    if sym == "IGNROOT":
        return pack(rig.wd_root, IN_IGNORED, 0, b"")
    raise ValueError(sym)


def idx_of(ev):
    if ev.name[:1] == b"n":
        return int(ev.name[1:])
    if not ev.name and ev.cookie >= 5000:
        return ev.cookie - 5000
    return None


def valid_seq(seq):
    """each cookie's FROM/TO at most once, TO not before its FROM's... (any order is allowed by the statement; keep it kernel-like:
    a TO may appear without FROM, a FROM without TO; but not two FROMs of one cookie); IGNORED at most once"""
    for s in ("F1", "F2", "T1", "T2", "IGN"):
        if seq.count(s) > 1:
            return False
    return True


def run_script(b: Batch, inst, seq, cuts, gaps, read_size=None, hold_plan=None, instr=None, close_at=None):
    """seq: symbols; cuts: tuple of batch lengths summing to len(seq); gaps: virtual gap after each batch."""
    rig = Rig(inst, read_size)
    rs = {"kind": "script1", "seq": list(seq), "cuts": list(cuts), "gaps": list(gaps), "read_size": read_size, "hold": hold_plan, "close_at": close_at}
    wit = dict(rs)
    b.case()
    release_vt = {}
    reached = False
    closed_early = False
    spanned = False
    try:
        try:
            rig.settle()
            pos = 0
            conc = hold_plan is not None
            for bi, (n, gap) in enumerate(zip(cuts, gaps)):
                if conc and bi == hold_plan.get("arm_at", 0) and rig.hold is None:
                    rig.hold = instr.add_hold(Hold(hold_plan["role"], hold_plan["qualname"], hold_plan["line"], nth=hold_plan.get("nth", 1), timeout=5.0))
                recs = []
                for i in range(pos, pos + n):
                    recs.append(encode(rig, seq[i], i))
                    release_vt[i] = rig.clock.now
                pos += n
                if close_at is not None and bi == close_at:
                    closed_early = True
                    break
                rig.k.release(rig.ifd, recs)
                rig.settle(allow_blocked=conc)
                if rig.hold is not None and rig.hold.reached.is_set() and not rig.hold._release.is_set() and hold_plan.get("span"):
                    # spanning hold: the thread stays parked while virtual time passes (it is preempted exactly when a delay
                    # expires); pairing is then undetermined, every other rule still applies
                    reached = True
                    spanned = True
                    rig.advance(gap, allow_blocked=True)
                    rig.hold.release()
                    rig.settle()
                    continue
                if rig.hold is not None and rig.hold.reached.is_set() and not rig.hold._release.is_set():
                    # a hold is a preemption of zero virtual duration: the other threads have run to quiescence (or block on
                    # the held thread); virtual time never advances while a thread is parked by the harness
                    reached = True
                    rig.hold.release()
                    rig.settle()
                rig.advance(gap, allow_blocked=False)
            if rig.hold is not None:
                reached = reached or rig.hold.reached.is_set()
                rig.hold.release()
                rig.settle()
            if not closed_early:
                rig.drain_all()
        except Stuck as e:
            b.inconc(f"C08 rig stuck ({e}): {rs}")
            return
    finally:
        if instr is not None:
            instr.clear_holds()
        rig.hold = None
        hung = rig.close()
    if hung:
        b.violation("close-does-not-terminate", f"InotifyBuffer.close() or the consumer did not return: {rs}", witness=wit, replay_spec=rs)
        return
    if rig.k.violations:
        b.count("side_observation_C12_sim_descriptor_misuse")
    # ---------------------------------------------------------------- offline checker
    log = rig.log
    delivered: dict[int, list] = {}
    errs = []
    for item, vt in log:
        if isinstance(item, tuple):
            f, t = item
            for ev in (f, t):
                delivered.setdefault(idx_of(ev), []).append(("pair", vt))
            if not (f.is_moved_from and t.is_moved_to and f.cookie == t.cookie):
                errs.append(("bad-pair", f"tuple is not (MOVED_FROM, MOVED_TO) of one cookie: {item!r}"))
        else:
            delivered.setdefault(idx_of(item), []).append(("alone", vt))
    n = len(seq)
    released = set(release_vt) if closed_early else set(range(n))
    for i in range(n):
        if seq[i] in ("IGN", "IGNROOT"):
            continue
        d = delivered.get(i, [])
        if len(d) > 1:
            kinds = sorted({k for k, _ in d})
            errs.append(("duplicated" if kinds != ["alone", "pair"] else "alone-and-in-pair", f"native event #{i} ({seq[i]}) delivered {len(d)} times ({kinds})"))
        if len(d) == 0 and not closed_early and i in released:
            errs.append(("lost", f"native event #{i} ({seq[i]}) was never delivered although the clock passed every delay"))
    # order
    last = -1
    for item, vt in log:
        if isinstance(item, tuple):
            ks = sorted(k for k in (idx_of(item[0]), idx_of(item[1])) if k is not None and k > last)
            if not ks:
                errs.append(("order", f"delivery order is inconsistent with kernel order at {item!r}"))
                break
            last = ks[0]
        else:
            k = idx_of(item)
            if k is None:
                continue
            if k <= last:
                errs.append(("order", f"event #{k} delivered after #{last}"))
                break
            last = k
    # pairing and timing
    pairs = 0
    cross = 0
    batch_of = {}
    pos = 0
    for bi, nb in enumerate(cuts):
        for i in range(pos, pos + nb):
            batch_of[i] = bi
        pos += nb
    for c in ("1", "2"):
        fi = seq.index("F" + c) if "F" + c in seq else None
        ti = seq.index("T" + c) if "T" + c in seq else None
        if fi is not None and fi in release_vt:
            d = delivered.get(fi, [])
            if ti is not None and ti in release_vt and ti > fi:
                gap = release_vt[ti] - release_vt[fi]
                if gap < D:
                    if spanned:
                        pass
                    elif not closed_early and not (len(d) == 1 and d[0][0] == "pair"):
                        errs.append(("unpaired-within-delay", f"MOVED_TO #{ti} was released {gap} s after MOVED_FROM #{fi} (< delay {D}) but they were not delivered as one pair: {d}"))
                    else:
                        pairs += 1
                        if batch_of[fi] != batch_of[ti]:
                            cross += 1
            for kind, vt in d:
                if kind == "alone" and vt < release_vt[fi] + D:
                    errs.append(("unmatched-from-early", f"unmatched MOVED_FROM #{fi} released at {release_vt[fi]} was delivered alone at {vt} < +{D}"))
    b.count("scripts_judged")
    b.count("native_events", n)
    b.count("pairs_delivered", pairs)
    b.count("cross_batch_pairs", cross)
    b.count("reads", len(rig.k.reads))
    if hold_plan is not None:
        b.count("hold_cases_reached" if reached else "hold_cases_not_reached")
        if reached:
            b.add("hold_points_reached", f"{hold_plan['role']}:{hold_plan['qualname']}:{hold_plan['line']}")
    if any(s[0] in "FT" for s in seq) and len(cuts) >= 2:
        b.nontrivial([list(seq), list(cuts), list(gaps), read_size, hold_plan, close_at])
    for mech, msg in errs:
        b.violation(mech, msg + f"  [{rs}]", witness=dict(wit, log=[(repr(it), vt) for it, vt in log]), replay_spec=rs)
    if len(b.samples) < 2 and pairs:
        b.sample({"sequence": list(seq), "batches": list(cuts), "gaps": list(gaps), "delivered": [(repr(it)[:80], vt) for it, vt in log][:6]})


def all_cuts(n):
    for mask in range(2 ** (n - 1)):
        cuts = []
        cur = 1
        for i in range(n - 1):
            if mask >> i & 1:
                cuts.append(cur)
                cur = 1
            else:
                cur += 1
        cuts.append(cur)
        yield tuple(cuts)


def rand_seq(r, n):
    for _ in range(50):
        seq = [r.choice(ALPHA + ["F1", "T1", "X"]) for _ in range(n)]
        if valid_seq(seq):
            return seq
    return ["X"] * n


def instr_for(seed):
    from watchdog.observers.inotify_buffer import InotifyBuffer
    from watchdog.utils.delayed_queue import DelayedQueue

    ins = Instr(seed=seed)
    ins.watch(DelayedQueue.get, DelayedQueue.remove, DelayedQueue.put, InotifyBuffer._group_events, InotifyBuffer.run)
    return ins


def discover(inst, seed):
    ins = instr_for(seed)
    ins.discover = True
    b = Batch()
    r = rng_for(seed, "c08d")
    with ins:
        for _ in range(15):
            seq = rand_seq(r, 6)
            cuts = r.choice(list(all_cuts(len(seq))))
            run_script(b, inst, seq, cuts, [r.choice(GAPS) for _ in cuts])
    pts = []
    for role, qn, line in ins.points:
        if role == "wdv-consumer" and qn == "DelayedQueue.get":
            pts.append((role, qn, line))
        elif role == "InotifyBuffer" and qn in ("InotifyBuffer._group_events", "DelayedQueue.remove", "DelayedQueue.put", "InotifyBuffer.run"):
            pts.append((role, qn, line))
    return sorted(set(pts), key=lambda t: (t[0], t[1], str(t[2])))


def plan(tier, seed, jobs):
    specs = []
    if tier == "quick":
        for j in range(jobs):
            specs.append({"kind": "enum", "maxlen": 4, "stride": jobs * 3, "offset": (seed + j * 3) % (jobs * 3), "budget_s": 50})
        for j in range(jobs // 2):
            specs.append({"kind": "random", "n": 400, "seed": seed, "j": j, "budget_s": 40})
        for j in range(jobs // 2):
            specs.append({"kind": "holds", "n": 60, "seed": seed, "j": j, "budget_s": 50})
    else:
        for j in range(jobs * 4):
            specs.append({"kind": "enum", "maxlen": 5, "stride": jobs * 4, "offset": j, "budget_s": 400})
        for j in range(jobs * 2):
            specs.append({"kind": "random", "n": 20000, "seed": seed, "j": j, "budget_s": 200})
        for j in range(jobs * 2):
            specs.append({"kind": "holds", "n": 1500, "seed": seed, "j": j, "budget_s": 250})
    return specs


def run_batch(spec):
    b = Batch(spec)
    inst = simkernel.Installed()
    try:
        k = spec["kind"]
        if k == "enum":
            idx = -1
            r = rng_for(0, "c08gap")
            for n in range(1, spec["maxlen"] + 1):
                for seq in itertools.product(ALPHA, repeat=n):
                    if not valid_seq(seq) or not any(s[0] in "FT" for s in seq):
                        continue
                    for cuts in all_cuts(n):
                        for gi, gap in enumerate(GAPS):
                            idx += 1
                            if idx % spec["stride"] != spec["offset"]:
                                continue
                            if b.expired():
                                b.count("enum_cases_skipped_by_budget")
                                continue
                            # the same gap after every batch, except the last one which only needs to be drained
                            run_script(b, inst, list(seq), cuts, [gap] * len(cuts), read_size=(80 if idx % 5 == 0 else None))
            b.count("enum_space", idx + 1)
        elif k == "random":
            r = rng_for(spec["seed"], "c08", spec["j"])
            for _ in range(spec["n"]):
                if b.expired():
                    break
                seq = rand_seq(r, r.randint(3, 10))
                cuts = tuple(_rand_cuts(r, len(seq)))
                gaps = [r.choice(GAPS + [EPS, D / 2]) for _ in cuts]
                close_at = r.randrange(len(cuts)) if r.random() < 0.1 else None
                if r.random() < 0.1:
                    # the kernel's watch-removed marker for the ROOT watch (unmount): the reader stops reading by itself; closing
                    # the buffer afterwards must still wake the consumer
                    seq = seq + ["IGNROOT"]
                    cuts = cuts + (1,)
                    gaps = gaps + [0.0]
                    close_at = None
                    b.count("root_ignored_scripts")
                run_script(b, inst, seq, cuts, gaps, read_size=r.choice([None, None, 80, 48]), close_at=close_at)
        elif k == "holds":
            pts = discover(inst, spec["seed"])
            for p in pts:
                b.add("hold_points_planned", f"{p[0]}:{p[1]}:{p[2]}")
            if not pts:
                b.inconc("no lines discovered for C08 holds")
                return b.to_dict()
            r = rng_for(spec["seed"], "c08h", spec["j"])
            ins = instr_for(spec["seed"] + spec["j"])
            with ins:
                n = 0
                while n < spec["n"] and not b.expired():
                    for role, qn, line in pts:
                        if n >= spec["n"] or b.expired():
                            break
                        n += 1
                        if role == "InotifyBuffer" and r.random() < 0.5:
                            # directed template: the reader is parked at this line while it handles the MOVED_TO of a rename whose
                            # MOVED_FROM is about to wait out its delay; virtual time crosses that deadline during the hold
                            pre = r.choice([["F1"], ["F1", "X"], ["X", "F1", "Y"], ["F2", "F1"]])
                            post = r.choice([["T1"], ["T1", "X"], ["Y", "T1"]])
                            seq = pre + post
                            cuts = (len(pre), len(post))
                            gaps = [D - EPS, r.choice([2 * EPS, D, 2 * D])]
                            hp = {"role": role, "qualname": qn, "line": line, "nth": r.choice([1, 1, 2]), "arm_at": 1, "span": True}
                            run_script(b, inst, seq, cuts, gaps, hold_plan=hp, instr=ins)
                            continue
                        seq = rand_seq(r, r.randint(3, 7))
                        if "F1" not in seq:
                            seq[0] = "F1"
                        if "T1" not in seq:
                            seq[-1] = "T1"
                        if not valid_seq(seq):
                            continue
                        cuts = tuple(_rand_cuts(r, len(seq)))
                        gaps = [r.choice(GAPS) for _ in cuts]
                        hp = {"role": role, "qualname": qn, "line": line, "nth": r.choice([1, 1, 2, 3]), "arm_at": r.randrange(len(cuts)), "span": r.random() < 0.5}
                        run_script(b, inst, seq, cuts, gaps, hold_plan=hp, instr=ins)
        elif k == "script1":
            if spec.get("hold"):
                ins = instr_for(1)
                with ins:
                    for _ in range(5):
                        run_script(b, inst, spec["seq"], tuple(spec["cuts"]), spec["gaps"], spec.get("read_size"), spec["hold"], ins, spec.get("close_at"))
            else:
                run_script(b, inst, spec["seq"], tuple(spec["cuts"]), spec["gaps"], spec.get("read_size"), None, None, spec.get("close_at"))
    finally:
        inst.restore()
    return b.to_dict()


def _rand_cuts(r, n):
    cuts = []
    left = n
    while left > 0:
        k = r.randint(1, min(left, 4))
        cuts.append(k)
        left -= k
    return cuts
