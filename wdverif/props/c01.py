"""C01 - replaying the native (inotify) event stream reproduces the real directory tree."""

from __future__ import annotations

from wdverif import fshist
from wdverif.instrument import Instr
from wdverif.monitors import Batch, rng_for

ID = "C01"
PROP = "C01"
LEVEL = "exploration"
RULE = (
    "case = one generated operation history (create/write/chmod/unlink/mkdir/makedirs/rmdir/rmtree/rename incl. replace/"
    "move out/move in of files and trees, names {a,b,c}, depth<=3) respecting the directory pacing condition, run against a real "
    "InotifyObserver (recursive or not, normal or full emitter, str/bytes, abs/rel root) in one of the modes plain / small reads "
    "(300-byte reads split kernel batches) / slow reader (delays at Inotify.read_events) ; the replay is compared with os.walk at "
    "every drain.  Non-trivial iff >=1 directory-structural operation and >=3 events delivered; distinct by (config, history)."
)
ASSUMPTIONS = [
    "drain = attribute toggle on a pre-existing sentinel file whose event must reach the handler (the pipeline is FIFO)",
    "replay semantics: created adds, deleted removes the subtree, moved moves the subtree (no-op if only the destination is known: "
    "synthetic descendants), half-empty moves of the full emitter act as created/deleted; modified/opened/closed are ignored",
    "IN_Q_OVERFLOW is kept from happening by bounded bursts (outside the property)",
]
MINIMUMS = {"quick": {"final_replay_comparisons": 200, "events_observed": 5000}, "thorough": {"final_replay_comparisons": 5000}}
WALL_CAP = {"quick": 170, "thorough": 3000}

MODES = ["plain", "plain", "small", "slow", "small+slow"]


def make_cfg(r, seed, n_ops=None, probe_p=0.0):
    mode = r.choice(MODES)
    cfg = {
        "seed": seed,
        "n_ops": n_ops or r.randint(8, 30),
        "recursive": r.random() < 0.8,
        "full": r.random() < 0.25,
        "bytes": r.random() < 0.2,
        "spelling": r.choice(["abs", "abs", "rel", "slash"]),
        "mode": mode,
        "read_size": 300 if "small" in mode else None,
        "delay": r.choice([0.1, 0.1, 0.1, 0.5]),
        "probe_p": probe_p,
        "final_probes": probe_p > 0,
        "n_root": r.randint(0, 6),
        "n_out": r.randint(2, 5),
    }
    if r.random() < 0.25:
        cfg["root_name"] = "a"  # names repeating the root's own component (prefix-rewrite corner)
    if r.random() < 0.25:
        cfg["names"] = ["a", "ab", "b"]  # names that are string prefixes of each other
    if r.random() < 0.15:
        # no symbolic link is ever created by these histories: asking for links to be followed must change nothing
        cfg["follow_symlink"] = True
    if r.random() < 0.4:
        cfg["out_ops"] = True  # other activity on directories after they left the tree must not leak into the stream
    return cfg


def slow_reader_instr(seed):
    from watchdog.observers.inotify_c import Inotify

    ins = Instr(seed=seed)
    ins.watch(Inotify.read_events)
    ins.set_noise(0.08, 0.004)
    return ins


def run_one(b: Batch, cfg, prop, justify=None):
    ins = None
    if "slow" in cfg.get("mode", ""):
        ins = slow_reader_instr(cfg["seed"])
        ins.start()
    try:
        h = fshist.History(cfg).run(justify=justify)
    finally:
        if ins is not None:
            ins.stop()
    structural = sum(1 for o in h.ops if o[0] in ("mkdir", "makedirs", "rmdir", "rmtree", "move_in", "move_out") or o[0] == "rename")
    fshist.account(b, h, prop, cfg, nontrivial=(structural >= 1 and h.events_seen >= 3))
    b.add("modes", cfg.get("mode", "plain"))
    return h


def plan(tier, seed, jobs):
    specs = [{"kind": "corpus", "budget_s": 60}]
    if tier == "quick":
        for j in range(jobs):
            specs.append({"kind": "random", "n": 200, "seed": seed, "j": j, "budget_s": 55})
    else:
        for j in range(jobs * 4):
            specs.append({"kind": "random", "n": 5000, "seed": seed, "j": j, "budget_s": 200})
        # all histories of length 2 over names {a,b} from each of the 41 small tree shapes (strided sample of the enumeration)
        for j in range(jobs * 2):
            specs.append({"kind": "enum2", "stride": jobs * 2 * 6, "offset": j * 6 + seed % 6, "budget_s": 300})
    return specs


def run_batch_for(prop, spec, probe_p=0.0, justify=None):
    b = Batch(spec)
    if spec["kind"] == "random":
        r = rng_for(spec["seed"], prop, spec["j"])
        for n in range(spec["n"]):
            if b.expired():
                break
            cfg = make_cfg(r, spec["seed"] * 1000003 + spec["j"] * 10007 + n, probe_p=probe_p)
            run_one(b, cfg, prop, justify)
    elif spec["kind"] == "enum2":
        from wdverif.props import c03

        idx = -1
        for state in c03.shapes():
            for op1 in c03.enumerate_ops(state):
                st1 = c03.apply_op(state, op1)
                if op1[0] == "move_out":
                    op1 = (op1[0], op1[1], "out/oX")
                for op2 in c03.enumerate_ops(st1):
                    if op2[0] == "move_in" and op1[0] == "move_in" and op2[1] == op1[1]:
                        continue
                    if op2[0] == "move_out":
                        op2 = (op2[0], op2[1], "out/oY")
                    for recursive in (True, False):
                        idx += 1
                        if idx % spec["stride"] != spec["offset"]:
                            continue
                        if b.expired():
                            b.count("enum2_cases_skipped_by_budget")
                            continue
                        c03.single_case(b, state, op1, recursive, False, idx, prop=prop, script=[op1, op2], single_step=False, justify=justify)
                        b.count("enum2_cases")
        b.count("enum2_space", idx + 1)
    elif spec["kind"] == "corpus":
        # regression corpus shared with C02/C03 (witnesses of repaired defects and of seeded changes that need several steps)
        from wdverif.props import c02, c03

        for cfg in c02.CORPUS + c03.CORPUS:
            for mode, rs in (("plain", None), ("small", 300)):
                run_one(b, dict(cfg, mode=mode, read_size=rs, final_probes=False, probe_p=0.0), prop, justify)
                b.count("corpus_cases")
    elif spec["kind"] == "history1":
        for _ in range(3):
            run_one(b, spec["cfg"], prop, justify)
    return b.to_dict()


def run_batch(spec):
    return run_batch_for("C01", spec)
