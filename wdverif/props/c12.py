"""C12 - every descriptor and thread is released exactly once, also on failure.
Engine: wdverif/apireal.py + env/osledger.py (descriptor sanitizer on the real kernel).  Deciding monitors: the ledger's
state machine (use-after-close, double close, leak at completed shutdown / failed construction), /proc/self/fd and
thread-ledger deltas over cycles; strace is used as an independent cross-check in the thorough tier."""

from __future__ import annotations

import errno
import os
import shutil
import subprocess
import sys
import tempfile
import threading

from wdverif import apireal, monitors
from wdverif.env import osledger
from wdverif.monitors import Batch, rng_for
from wdverif.props import c06

ID = "C12"
LEVEL = "fault_enumeration"
RULE = (
    "case = (a) a cycle: random schedule/unschedule/start/stop sequence on the real kernel incl. failing calls (missing path, a file, "
    "root removed before start with start() retried); (b) a watch construction with a failure injected at inotify_init or at the k-th "
    "inotify_add_watch of a tree of 1-6 directories, errno in {ENOENT, ENOSPC, EMFILE, EACCES} (enumerated completely), on an idle and "
    "on a running observer; (c) a directed hold: reader/emitter/dispatcher/closing thread parked at a discovered line of the read and "
    "close paths while close()/stop()/unschedule()/root removal runs.  Non-trivial iff the cycle has >=1 failing call, the injection "
    "fired, or the hold point was reached."
)
ASSUMPTIONS = [
    "descriptor events are observed at the module-global os/select/inotify_* names of watchdog.observers.inotify_c (every descriptor "
    "the Inotify class opens goes through them); the kernel underneath is real",
    "audit points: after stop()+join(), after unschedule() returned (that watch's group), after schedule()/start() raised",
]
MINIMUMS = {"quick": {"shutdown_audits": 500, "injections_fired": 60, "hold_cases_reached": 80},
            "thorough": {"shutdown_audits": 20000, "injections_fired": 150, "hold_cases_reached": 1500}}
WALL_CAP = {"quick": 170, "thorough": 3000}


def judge(b: Batch, out, log, wit, rs):
    b.case()
    b.count("shutdown_audits")
    wit = dict(wit, log=log)
    if out["hung"]:
        b.inconc(f"C12: {out['hung']['call']} did not return (judged under C06)")
        return
    for v in out["ledger_violations"]:
        b.violation(v["kind"], f"{v['kind']}: {v.get('what', 'close')} on fd {v['fd']} by thread {v['thread']} (closed earlier at {v['closed_at'][-2:]})",
                    witness=dict(wit, ledger=v), replay_spec=rs)
    acs = out.get("after_completed_stop")
    if acs is not None:
        b.count("completed_stop_audits")
        if acs["threads"] or acs["fds"]:
            b.violation("resources-alive-after-completed-stop", f"a stop() of the started observer had returned and all calls had ended, yet threads {acs['threads']} / descriptors {acs['fds']} were still there (before any further stop())",
                        witness=wit, replay_spec=rs)
    if out["fds_open"]:
        b.violation("descriptor-leak", f"descriptors still open after the owner's shutdown completed: {out['fds_open']}", witness=wit, replay_spec=rs)
    elif out["proc_fd_delta"] > 0:
        b.violation("process-fd-count-grew", f"/proc/self/fd grew by {out['proc_fd_delta']}: {out.get('proc_fd_extra')}", witness=wit, replay_spec=rs)
    if out["threads_alive"]:
        b.violation("thread-leak", f"library threads still alive after shutdown: {[t['thread'] for t in out['threads_alive']]}",
                    witness=dict(wit, threads=out["threads_alive"]), replay_spec=rs)


def run_cycle(b: Batch, r, led, kind="inotify"):
    c = apireal.Case(kind, led, tree_dirs=r.randint(0, 4))
    n = r.randint(3, 9)
    failing = 0
    for _ in range(n):
        op, arg = r.choice(c06.ALPHA[:7] + [("schedule", "file"), ("start", None), ("stop", None), ("schedule", "p2"), ("unschedule", "p2")])
        if op == "start" and (c.started or c.stopped):
            continue
        rec = c.call(op, arg)
        if rec["status"] == "hung":
            break
        if rec["status"] == "raised":
            failing += 1
            if op == "start":
                c.call("start")
        if op == "unschedule" and rec["status"] == "ok" and led is not None:
            left = led.group_open(os.fsencode(c.paths[arg]))
            b.count("unschedule_audits")
            if left:
                b.violation("descriptor-leak", f"unschedule({arg}) returned with descriptors {left} of that watch still open", witness={"log": c.log})
    out = c.finish()
    judge(b, out, c.log, {"cycle": True, "kind": kind}, None)
    if failing and len(b.samples) < 1:
        b.sample({"cycle": [(x["op"], x["arg"], x["status"], x.get("exc", "")[:60]) for x in c.log], "descriptors_open_at_end": out["fds_open"],
                  "library_threads_alive_at_end": len(out["threads_alive"])})
    if failing:
        b.count("cycles_with_failing_call")
        b.nontrivial(["cycle", [(x["op"], x["arg"], x["status"]) for x in c.log]])


ERRNOS = [errno.ENOENT, errno.ENOSPC, errno.EMFILE, errno.EACCES]


def run_long_lived(b: Batch, r, led, rounds=60):
    """ONE running observer over many schedule / event / unschedule rounds (also failing schedules): after every round the
    descriptor ledger and the thread count are back at the level of the idle observer - nothing accumulates."""
    c = apireal.Case("inotify", led, tree_dirs=2)
    c.call("start")
    base_threads = None
    for i in range(rounds):
        if b.expired() or c.hung:
            break
        what = r.choice(["p1", "p2", "p2", "missing", "file"])
        rec = c.call("schedule", what)
        if rec["status"] == "ok":
            if r.random() < 0.5:
                c.call("touch", "p2" if what == "p2" else "p1")
            if r.random() < 0.3:
                c.call("schedule", what)  # a second handler-less schedule of an equal watch shares the emitter
            c.call("unschedule", what)
        lib = [t for t in threading.enumerate() if t not in c.threads0 and apireal.is_library_thread(t) and t is not c.obs]
        left = monitors.wait_threads_gone(lib, grace=1.0)
        fds = led.open_fds()
        b.count("long_lived_round_audits")
        if left or fds:
            b.violation("resources-accumulate-over-cycles", f"round {i} of one long-lived observer: after unschedule() the observer still holds threads {[monitors.thread_desc(t) for t in left]} / descriptors {dict((fd, x['kind']) for fd, x in fds.items())}",
                        witness={"round": i, "log": c.log[-8:]})
            break
    out = c.finish()
    judge(b, out, c.log[-10:], {"long_lived": True}, None)
    b.nontrivial(["long-lived", rounds, r.random()])


def run_injection(b: Batch, led, ndirs, where, k, en, running):
    """Failure at inotify_init (where='init') or at the k-th inotify_add_watch while a watch on a tree of ndirs directories is built."""
    c = apireal.Case("inotify", led, tree_dirs=ndirs - 1)
    if running:
        c.call("schedule", "p1")
        c.call("start")
        base_init, base_add = led.calls["inotify_init"], led.calls["inotify_add_watch"]
    else:
        base_init, base_add = led.calls["inotify_init"], led.calls["inotify_add_watch"]
    if where == "init":
        led.fail_init_at[base_init] = en
    else:
        led.fail_add_at[base_add + k] = en
    n_fired0 = len(led.fired)
    open_before = set(led.open_fds())
    if running:
        rec = c.call("schedule", "p2")
    else:
        c.call("schedule", "p2")
        rec = c.call("start")
    fired = len(led.fired) > n_fired0
    if fired:
        b.count("injections_fired")
        b.add("injection_points", f"{where}:{k}:{errno.errorcode[en]}:{'running' if running else 'idle'}")
        b.nontrivial(["inj", ndirs, where, k, en, running])
        if rec["status"] == "raised":
            b.count("injections_that_made_the_call_raise")
            new_open = set(led.open_fds()) - open_before
            if new_open:
                b.violation("descriptor-leak", f"{rec['op']} raised ({rec['exc']}) after {where}#{k} failed with {errno.errorcode[en]} but descriptors {sorted(new_open)} "
                            f"created for that watch are still open", witness={"ndirs": ndirs, "where": where, "k": k, "errno": errno.errorcode[en], "running": running, "log": c.log},
                            replay_spec={"kind": "inj1", "ndirs": ndirs, "where": where, "k": k, "errno": en, "running": running})
            if rec["op"] == "start":
                c.call("start")  # retry
    out = c.finish()
    judge(b, out, c.log, {"injection": [ndirs, where, k, errno.errorcode[en], running]},
          {"kind": "inj1", "ndirs": ndirs, "where": where, "k": k, "errno": en, "running": running})


def run_thread_start_fault(b: Batch, led, cls_name, running):
    """schedule() / start() fails because a library thread cannot be started (RuntimeError: can't start new thread, as at a
    thread limit) - a failure at a step AFTER descriptors or helper threads have been created for the watch."""
    c = apireal.Case("inotify", led, tree_dirs=1)
    real_start = threading.Thread.start
    state = {"armed": False, "fired": 0}

    def start(self):
        if state["armed"] and type(self).__name__ == cls_name and not state["fired"]:
            state["fired"] += 1
            raise RuntimeError("can't start new thread")
        return real_start(self)

    threading.Thread.start = start
    try:
        if running:
            c.call("schedule", "p1")
            c.call("start")
        open_before = set(led.open_fds())
        lib_before = {t for t in threading.enumerate() if apireal.is_library_thread(t)}
        state["armed"] = True
        if running:
            rec = c.call("schedule", "p2")
        else:
            c.call("schedule", "p2")
            rec = c.call("start")
        state["armed"] = False
    finally:
        threading.Thread.start = real_start
    b.case()
    rs = {"kind": "tsf1", "cls": cls_name, "running": running}
    if state["fired"]:
        b.count("thread_start_faults_fired")
        b.nontrivial(["tsf", cls_name, running])
        if rec["status"] == "raised":
            b.count("thread_start_faults_that_made_the_call_raise")
            new_open = set(led.open_fds()) - open_before
            new_thr = [t for t in threading.enumerate() if apireal.is_library_thread(t) and t not in lib_before and t is not c.obs]
            left = monitors.wait_threads_gone(new_thr, grace=1.0)
            if new_open or left:
                b.violation("leak-after-thread-start-failure",
                            f"{rec['op']} raised ({rec['exc']}) because a {cls_name} thread could not be started, but descriptors {sorted(new_open)} / threads "
                            f"{[monitors.thread_desc(t) for t in left]} created for that watch are still there",
                            witness={"cls": cls_name, "running": running, "log": c.log}, replay_spec=rs)
    out = c.finish()
    judge(b, out, c.log, {"thread_start_fault": [cls_name, running]}, rs)


def run_without_stdin(b: Batch):
    """A daemon-style process (descriptor 0 closed): inotify_init() then returns 0.  Start/stop cycles must leave no inotify
    descriptor or pipe behind there either (a child process, audited through /proc/self/fd)."""
    script = r'''
import os, sys, json
os.close(0)
import tempfile, shutil, time
from watchdog.observers.inotify import InotifyObserver
class H:
    def dispatch(self, e): pass
def snap():
    out = {}
    for fd in os.listdir("/proc/self/fd"):
        try:
            out[int(fd)] = os.readlink("/proc/self/fd/" + fd)
        except OSError:
            pass
    return out
base = tempfile.mkdtemp()
os.mkdir(base + "/d")
before = snap()
for i in range(6):
    o = InotifyObserver()
    w = o.schedule(H(), base, recursive=True)
    o.start()
    open(base + "/f%d" % i, "w").close()
    time.sleep(0.02)
    if i % 2:
        o.unschedule(w)
    try:
        o.schedule(H(), base + "/missing", recursive=True)
    except OSError:
        pass
    o.stop(); o.join()
after = snap()
shutil.rmtree(base)
left = {fd: t for fd, t in after.items() if fd not in before and ("inotify" in t or "pipe" in t)}
zero = after.get(0) if 0 not in before else None
print(json.dumps({"left": left, "fd0": zero}))
'''
    d = tempfile.mkdtemp(prefix="wdv-nostdin-")
    try:
        sf = os.path.join(d, "s.py")
        with open(sf, "w") as fh:
            fh.write(script)
        p = subprocess.run([sys.executable, sf], env=dict(os.environ), capture_output=True, timeout=120)
        b.case()
        if p.returncode != 0:
            err = p.stderr.decode("utf8", "replace")
            if "instance limit" in err or "Errno 24" in err or "watch limit" in err:
                # the per-user inotify limits are shared with every other job on the machine: not a verdict
                b.count("cases_skipped_for_lack_of_inotify_instances")
                return
            b.inconc(f"no-stdin child could not run: rc={p.returncode} {err[-600:]!r}")
            return
        import json as _json

        res = _json.loads(p.stdout.decode().strip().splitlines()[-1])
        b.count("no_stdin_cycles", 6)
        b.nontrivial(["nostdin"])
        if res["left"] or (res["fd0"] and ("inotify" in res["fd0"] or "pipe" in res["fd0"])):
            b.violation("descriptor-leak", f"process without stdin: after 6 start/stop cycles these descriptors are still open: {res}", witness=res,
                        replay_spec={"kind": "nostdin"})
    finally:
        shutil.rmtree(d, ignore_errors=True)


def strace_crosscheck(b: Batch):
    """Independent syscall-level cross-check: a child process runs start/stop cycles under strace -f; every close() of a
    descriptor obtained from inotify_init/pipe must succeed exactly once and no traced syscall may return EBADF."""
    script = r'''
import os, sys, tempfile, shutil, time
from watchdog.observers.inotify import InotifyObserver
class H:
    def dispatch(self, e): pass
base = tempfile.mkdtemp()
for i in range(12):
    o = InotifyObserver()
    o.schedule(H(), base, recursive=True)
    try:
        o.schedule(H(), base + "/missing", recursive=True)
    except OSError:
        pass
    try:
        o.start()
    except OSError:
        o.start()  # the emitter of the missing path has been dropped; retry as the suite does
    if i % 2: open(base + "/f%d" % i, "w").close()
    if i % 3 == 0: time.sleep(0.02)
    o.stop(); o.join()
shutil.rmtree(base)
'''
    d = tempfile.mkdtemp(prefix="wdv-strace-")
    try:
        sf = os.path.join(d, "s.py")
        with open(sf, "w") as fh:
            fh.write(script)
        logf = os.path.join(d, "trace")
        env = dict(os.environ)
        p = subprocess.run(["strace", "-f", "-o", logf, "-e", "trace=inotify_init,inotify_init1,pipe,pipe2,close,read,write,poll,inotify_add_watch,inotify_rm_watch",
                            sys.executable, sf], env=env, capture_output=True, timeout=120)
        if p.returncode != 0 or not os.path.exists(logf):
            err = p.stderr.decode("utf8", "replace")
            if "instance limit" in err or "Errno 24" in err or "watch limit" in err:
                b.count("cases_skipped_for_lack_of_inotify_instances")
                return
            b.inconc(f"strace cross-check could not run: rc={p.returncode} {err[-300:]!r}")
            return
        import re

        owned: dict[str, str] = {}
        opens = closes = 0
        ebadf = []
        leaks = 0
        for line in open(logf, errors="replace"):
            m = re.match(r"\d+\s+(\w+)\((.*)\)\s+=\s+(-?\d+)(.*)", line)
            if not m:
                continue
            name, args, ret, rest = m.group(1), m.group(2), int(m.group(3)), m.group(4)
            if name in ("inotify_init", "inotify_init1") and ret >= 0:
                owned[str(ret)] = "inotify"
                opens += 1
            elif name in ("pipe", "pipe2") and ret == 0:
                mm = re.search(r"\[(\d+), (\d+)\]", args)
                if mm and "O_CLOEXEC" not in args:  # CPython's os.pipe uses pipe2(O_CLOEXEC); keep both
                    pass
                if mm:
                    owned[mm.group(1)] = "pipe-r"
                    owned[mm.group(2)] = "pipe-w"
                    opens += 2
            elif name == "close":
                fd = args.strip()
                if fd in owned:
                    if ret == 0:
                        del owned[fd]
                        closes += 1
                if "EBADF" in rest:
                    ebadf.append(line.strip()[:120])
            elif "EBADF" in rest:
                ebadf.append(line.strip()[:120])
        b.count("strace_opens", opens)
        b.count("strace_closes", closes)
        b.count("strace_runs")
        inot_left = [fd for fd, k in owned.items() if k == "inotify"]
        if ebadf:
            b.violation("strace-ebadf", f"syscalls on a closed descriptor seen by strace: {ebadf[:3]}", witness={"lines": ebadf[:10]})
        if inot_left:
            b.violation("strace-leak", f"inotify descriptors never closed according to strace: {inot_left}", witness={"fds": inot_left})
    finally:
        shutil.rmtree(d, ignore_errors=True)


def plan(tier, seed, jobs):
    specs = []
    if tier == "quick":
        for j in range(5):
            specs.append({"kind": "cycles", "n": 300, "seed": seed, "j": j, "budget_s": 45})
        for nd in range(1, 5):
            specs.append({"kind": "inject", "ndirs": nd, "budget_s": 60})
        specs.append({"kind": "longlived", "n": 3, "rounds": 60, "seed": seed, "budget_s": 60})
        specs.append({"kind": "tsf"})
        specs.append({"kind": "nostdin"})
        for j in range(6):
            specs.append({"kind": "holds", "seed": seed, "j": j, "of": 6, "budget_s": 60})
        specs.append({"kind": "strace"})
    else:
        for j in range(jobs):
            specs.append({"kind": "cycles", "n": 6000, "seed": seed, "j": j, "budget_s": 800})
        for nd in range(1, 7):
            specs.append({"kind": "inject", "ndirs": nd, "budget_s": 600})
        for j in range(4):
            specs.append({"kind": "longlived", "n": 10, "rounds": 400, "seed": seed + j, "budget_s": 800})
        specs.append({"kind": "tsf"})
        specs.append({"kind": "nostdin"})
        for j in range(jobs):
            specs.append({"kind": "holds", "seed": seed, "j": j, "of": jobs, "budget_s": 900, "reps": 10})
        specs.append({"kind": "strace"})
    return specs


def run_batch(spec):
    b = Batch(spec)
    k = spec["kind"]
    if k == "strace":
        strace_crosscheck(b)
        b.case()
        return b.to_dict()
    led = osledger.install()
    if k == "cycles":
        r = rng_for(spec["seed"], "C12", spec["j"])
        for n in range(spec["n"]):
            if b.expired():
                break
            run_cycle(b, r, led)
        pass
    elif k == "nostdin":
        run_without_stdin(b)
    elif k == "tsf":
        for cls_name in ("InotifyEmitter", "InotifyBuffer"):
            for running in (True, False):
                run_thread_start_fault(b, led, cls_name, running)
    elif k == "tsf1":
        run_thread_start_fault(b, led, spec["cls"], spec["running"])
    elif k == "longlived":
        r = rng_for(spec["seed"], "C12L")
        for n in range(spec["n"]):
            if b.expired():
                break
            run_long_lived(b, r, led, spec["rounds"])
    elif k == "inject":
        nd = spec["ndirs"]
        for running in (True, False):
            for en in ERRNOS:
                run_injection(b, led, nd, "init", 0, en, running)
                for kk in range(nd):
                    run_injection(b, led, nd, "add", kk, en, running)
        b.sample({"injection": {"ndirs": nd, "positions": ["init"] + [f"add#{i}" for i in range(nd)], "errnos": [errno.errorcode[e] for e in ERRNOS]}})
    elif k == "holds":
        pts = apireal.discover("inotify", spec["seed"])
        for p in pts:
            b.add("hold_points_planned", f"{p[0]}:{p[1]}:{p[2]}")
        ins = apireal.instr_for_pipeline(spec["seed"])
        r = rng_for(spec["seed"], "C12h", spec["j"])
        with ins:
            for rep in range(spec.get("reps", 1)):
                for i, pt in enumerate(pts):
                    if i % spec["of"] != spec["j"] or b.expired():
                        continue
                    closer = pt[0].startswith("wdv-call-")
                    for partner in (["touch", "rmroot", "none", "schedule"] if closer else c06.PARTNERS):
                        nth = r.choice([1, 1, 2])
                        ev = r.choice([False, True, "mkdirs"])
                        out = apireal.hold_case(ins, led, "inotify", pt, nth, partner, ev)
                        judge(b, out, out["log"], {"hold": list(map(str, pt)), "nth": nth, "partner": partner, "event": ev},
                              {"kind": "hold1", "point": list(pt), "nth": nth, "partner": partner, "event": ev})
                        b.count("hold_cases_reached" if out["reached"] else "hold_cases_not_reached")
                        if out["reached"]:
                            b.add("hold_points_reached", f"{pt[0]}:{pt[1]}:{pt[2]}")
                            b.nontrivial(["hold", list(map(str, pt)), nth, partner, ev])
                            if len(b.samples) < 1:
                                b.sample({"hold": {"thread": pt[0], "function": pt[1], "line": pt[2], "nth_arrival": nth, "partner": partner, "event_in_buffer": ev},
                                          "calls": [(x["op"], x["status"]) for x in out["log"]]})
    elif k == "inj1":
        run_injection(b, led, spec["ndirs"], spec["where"], spec["k"], spec["errno"], spec["running"])
    elif k == "hold1":
        ins = apireal.instr_for_pipeline(1)
        with ins:
            for _ in range(3):
                pt = tuple(spec["point"])
                out = apireal.hold_case(ins, led, "inotify", pt, spec["nth"], spec["partner"], spec["event"])
                judge(b, out, out["log"], {"hold": list(map(str, pt))}, spec)
    return b.to_dict()
