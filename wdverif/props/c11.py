"""C11 - an event filter only removes events; it never alters the rest of the stream.
One observer, one history, 1 unfiltered + k filtered watches on the same root (each filtered watch is its own emitter /
inotify instance).  Oracle: collapse(filter_F(stream(unfiltered))) == collapse(stream(filtered by F)).
The unfiltered stream is drained by sentinel, every stream by logical quiescence (reader parked in poll with FIONREAD == 0,
emitter parked in the delay queue's condition, dispatcher queue finished) - a filter may reject every sentinel event."""

from __future__ import annotations

import fcntl
import itertools
import os
import random
import termios
import time

from wdverif import fsrig, monitors
from wdverif.env import osledger, vclock
from wdverif.fsrig import OpGen, Pacer, Universe, op_footprint
from wdverif.monitors import Batch, rng_for

ID = "C11"
LEVEL = "exploration"
RULE = (
    "case = (filter F from the event class lattice: each of the 12 concrete classes, FileSystemEvent, FileSystemMovedEvent, pairs, "
    "random larger subsets; recursive flag; normal/full emitter; one paced history biased to move-out, move-in of trees, directories "
    "created after start with later activity inside, opens/closes).  k filters share one history (1+k watches on one observer).  "
    "Non-trivial iff the unfiltered stream holds >=1 event the filter accepts and >=1 it rejects; distinct by (filter, config, history)."
)
ASSUMPTIONS = [
    "both streams are compared after collapsing adjacent identical events (insensitive to how the shared queue coalesced)",
    "a directory that just arrived or was renamed is not moved/removed again before a drain (synthetic descendant events are computed from the disk at emit time); nested bursts (makedirs) are not generated: the walk-after-mkdir duplicates are timing-dependent per inotify instance (C03 allows them) and are not a filter effect; default 0.5 s pairing delay; a mismatch consisting only of moved(s,d) versus deleted(s)+created(d) is classified inconclusive (pairing "
    "differences between two inotify instances), never a violation",
    "quiescence of a filtered stream is decided logically (poll parked + FIONREAD==0, delay-queue consumer parked, dispatcher idle), never by sleeping",
]
MINIMUMS = {"quick": {"filter_comparisons": 300, "nontrivial_comparisons": 150}, "thorough": {"filter_comparisons": 8000}}
WALL_CAP = {"quick": 170, "thorough": 3000}

BIAS = {"move_out": 4, "move_in": 4, "mkdir": 3, "makedirs": 0, "burst": 0, "create": 3, "write": 3, "chmod": 1.5, "unlink": 2, "rename_dir": 3, "rename_file": 2,
        "rmdir": 1, "rmtree": 1, "rename_replace": 1}


def classes():
    from watchdog import events as ev

    concrete = [ev.FileDeletedEvent, ev.FileModifiedEvent, ev.FileCreatedEvent, ev.FileMovedEvent, ev.FileClosedEvent, ev.FileClosedNoWriteEvent,
                ev.FileOpenedEvent, ev.DirDeletedEvent, ev.DirModifiedEvent, ev.DirCreatedEvent, ev.DirMovedEvent]
    bases = [ev.FileSystemEvent, ev.FileSystemMovedEvent]
    return concrete, bases


class Col:
    def __init__(self):
        self.events = []

    def dispatch(self, e):
        self.events.append(e)


class MultiSession:
    def __init__(self, u: Universe, filters, recursive, full, led, tp):
        from watchdog.observers.inotify import InotifyObserver
        from watchdog.observers.inotify_buffer import InotifyBuffer

        InotifyBuffer.delay = 0.5
        self.u, self.led, self.tp = u, led, tp
        osledger.reset(led)
        self.cond0 = len(tp.conditions)
        self.obs = InotifyObserver(generate_full_events=full)
        self.root = u.abs(u.root_name)
        self.h0 = fsrig.Collector({os.path.join(self.root, fsrig.SENT)})
        self.cols = [Col() for _ in filters]
        self.filters = filters
        self.exc_mark = monitors.exc_mark()
        self.obs.schedule(self.h0, self.root, recursive=recursive)
        for c, f in zip(self.cols, filters):
            self.obs.schedule(c, self.root, recursive=recursive, event_filter=list(f))
        self.obs.start()
        self.n_sent = 0

    def quiescent(self) -> bool:
        led = self.led
        groups = [g for g in led.groups if any(fd in led.open and led.open[fd]["kind"] == "inotify" for fd in g["fds"])]
        buf = bytearray(4)
        for _ in range(2):
            for p in list(led.select_proxy.pollers):
                if p._fds and p._fds[0] in led.open and not p.parked:
                    return False
            for g in groups:
                for fd in g["fds"]:
                    rec = led.open.get(fd)
                    if rec and rec["kind"] == "inotify":
                        try:
                            fcntl.ioctl(fd, termios.FIONREAD, buf)
                        except OSError:
                            return False
                        if int.from_bytes(buf, "little") != 0:
                            return False
            conds = self.tp.conditions[self.cond0:]
            if sum(1 for c in conds if c.truly_parked() >= 1) < sum(1 for e in self.obs.emitters if e.is_alive()):
                return False
            if self.obs.event_queue.unfinished_tasks != 0:
                return False
        return True

    def drain(self, timeout=30.0):
        import stat as _stat

        self.n_sent += 1
        p = os.path.join(self.root, fsrig.SENT)
        st = os.stat(p)
        os.chmod(p, _stat.S_IMODE(st.st_mode) ^ 0o100)
        end = time.monotonic() + timeout
        with self.h0.cv:
            while self.h0.sentinels < self.n_sent and time.monotonic() < end:
                self.h0.cv.wait(0.2)
            if self.h0.sentinels < self.n_sent:
                return "sentinel-timeout"
        stable = 0
        while time.monotonic() < end:
            if self.quiescent():
                stable += 1
                if stable >= 2:
                    return None
            else:
                stable = 0
            time.sleep(0.002)
        return "quiescence-timeout"

    def close(self):
        self.obs.stop()
        self.obs.join(10)


def collapse(evs):
    out = []
    for e in evs:
        if not out or out[-1] != e:
            out.append(e)
    return out


def desc(e):
    return (type(e).__name__, e.src_path, e.dest_path, e.is_synthetic)


def only_pairing_difference(a, b):
    """True if the two sequences differ only by moved(s,d) <-> deleted(s)+created(d) (+ their synthetic descendants)."""
    def norm(seq):
        out = []
        for e in seq:
            if e.event_type == "moved" and e.src_path and e.dest_path:
                out.append(("deleted", e.is_directory, e.src_path))
                out.append(("created", e.is_directory, e.dest_path))
            elif e.event_type in ("created", "deleted"):
                out.append((e.event_type, e.is_directory, e.src_path))
            elif e.event_type == "moved":
                out.append(("created" if e.dest_path else "deleted", e.is_directory, e.dest_path or e.src_path))
            else:
                out.append((e.event_type, e.is_directory, e.src_path))
        return sorted(set(out), key=repr)
    return norm(a) == norm(b)


def run_case(b: Batch, cfg, filters, led, tp, _retry=False):
    r = random.Random(cfg["seed"])
    u = Universe(r)
    sess = None
    try:
        u.populate(cfg.get("n_root", 4), cfg.get("n_out", 4))
        import errno as _errno

        for attempt in range(6):
            try:
                sess = MultiSession(u, filters, cfg["recursive"], cfg["full"], led, tp)
                break
            except OSError as e:
                if e.errno not in (_errno.EMFILE, _errno.ENFILE, _errno.ENOSPC):
                    raise
                b.count("environment_backoffs")
                if attempt == 5:
                    # the per-user inotify instance limit (128) is shared with every other job on the machine: this case
                    # is not run (too few comparisons overall make the run inconclusive through the minimum counters)
                    b.count("cases_skipped_for_lack_of_inotify_instances")
                    return
                time.sleep(1.0 + attempt)
        pacer = Pacer()
        gen = OpGen(u, r, bias=BIAS, allow_out_ops=cfg.get("out_ops", False))
        why = sess.drain()
        ops = []
        if cfg.get("link_in_new_dir") and not why:
            # a directory appears together with a symbolic link to a directory OUTSIDE the tree; later that outside
            # directory changes.  None of this is inside the watched tree: nobody may report it, filtered or not.
            outside = os.path.join(u.base, "zz-outside")
            os.mkdir(outside)
            newd = os.path.join(sess.root, "zl")
            os.mkdir(newd)
            os.symlink(outside, os.path.join(newd, "lnk"))
            ops.append(["mkdir+symlink", "zl", "zl/lnk -> (outside)"])
            why = sess.drain()
            if not why:
                for i in range(3):
                    with open(os.path.join(outside, f"o{i}"), "w") as fh:
                        fh.write("x")
                os.mkdir(os.path.join(outside, "od"))
                ops.append(["outside activity"])
                b.count("link_in_new_dir_cases")
                why = sess.drain()
        for _ in range(cfg["n_ops"]):
            if why:
                break
            op = gen.next_op()
            if op is None:
                break
            touches, names, hot = op_footprint(u, op)
            # stricter than the pacing condition: a directory that just arrived / was renamed is not moved or removed again
            # before a drain, because the synthetic descendant events are computed from the disk at emit time and would
            # legitimately differ between two emitters that get to it at different moments
            again = op[0] in ("rename", "move_out", "rmdir", "rmtree") and (op[1] in pacer.hot or any(h.startswith(op[1] + "/") for h in pacer.hot))
            if again or pacer.needs_drain(touches, names):
                why = sess.drain()
                pacer.drained()
                if why:
                    break
            u.do(op)
            ops.append(list(op))
            pacer.mark(hot)
        if not why:
            why = sess.drain()
        if why:
            recs = [x for x in monitors.exc_since(sess.exc_mark) if x["library"]]
            if recs:
                b.count("side_observation_C07_library_thread_died")
            st = {"pollers": [(p._fds[:1], p.parked, (p._fds[0] in led.open) if p._fds else None) for p in led.select_proxy.pollers],
                  "conds": [c.truly_parked() for c in tp.conditions[sess.cond0:]], "emitters_alive": [e.is_alive() for e in sess.obs.emitters],
                  "unfinished": sess.obs.event_queue.unfinished_tasks, "exc": [x["exc"] for x in recs]}
            b.inconc(f"C11: {why} state={st} (filters={[sorted(c.__name__ for c in f) for f in filters]})")
            return
        sent = os.path.join(sess.root, fsrig.SENT)
        retry = []
        # the new directory and the link arrive as a burst: whether the link's own creation is seen as the kernel's event
        # (file flavour) or through the walk of the new directory (directory flavour, possibly both) depends on when each
        # inotify instance gets to it - not a filter effect; what lies BELOW the link is judged
        own = {os.path.join(sess.root, "zl"), os.path.join(sess.root, "zl", "lnk")} if cfg.get("link_in_new_dir") else set()
        s0 = [e for e in sess.h0.events if e.src_path != sent and e.src_path not in own]
        for f, col in zip(filters, sess.cols):
            names = sorted(c.__name__ for c in f)
            want = collapse([e for e in s0 if isinstance(e, tuple(f))])
            got = collapse([e for e in col.events if e.src_path != sent and e.src_path not in own])
            b.case()
            b.count("filter_comparisons")
            acc = len(want)
            rej = len(s0) - sum(1 for e in s0 if isinstance(e, tuple(f)))
            if acc and rej:
                b.count("nontrivial_comparisons")
                b.nontrivial([names, cfg, ops])
            b.add("filters_exercised", "|".join(names))
            if want != got:
                if only_pairing_difference(want, got):
                    b.count("inconclusive_pairing_difference")
                    continue
                lost = [e for e in want if e not in got]
                extra_ = [e for e in got if e not in want]
                ren_src = {os.path.join(sess.root, o[1][len(u.root_name) + 1:]) for o in ops if o[0] == "rename"}
                ren_dst = {os.path.join(sess.root, o[2][len(u.root_name) + 1:]) for o in ops if o[0] == "rename"}

                def split_artifact(e):
                    # an event that exists only because one of the two inotify instances delivered a rename as deleted + created
                    # (its two halves were read more than the pairing delay apart under load) while the other paired it
                    if e.event_type == "moved":
                        return e.src_path in ren_src or e.is_synthetic
                    if e.event_type == "created":
                        return e.src_path in ren_dst or e.is_synthetic
                    if e.event_type == "deleted":
                        return e.src_path in ren_src
                    return e.event_type == "modified" and e.is_directory

                if not _retry and (lost or extra_) and all(split_artifact(e) for e in lost + extra_):
                    # could be the two inotify instances pairing a rename differently under load (the filter hides the
                    # deleted/created halves): run the very same case once more and judge that run
                    b.count("retried_possible_pairing_difference")
                    retry.append(f)
                    continue
                # first difference
                i = 0
                while i < min(len(want), len(got)) and want[i] == got[i]:
                    i += 1
                missing = [desc(e) for e in want if e not in got][:4]
                extra = [desc(e) for e in got if e not in want][:4]
                mech = "filter-loses-events" if missing and not extra else ("filter-adds-events" if extra and not missing else "filter-alters-stream")
                b.violation(mech, f"filter {names} (recursive={cfg['recursive']}, full={cfg['full']}): filtered stream differs from the filtered unfiltered stream at index {i}: "
                            f"missing={missing} extra={extra}",
                            witness={"filter": names, "cfg": cfg, "ops": ops, "want": [desc(e) for e in want][:60], "got": [desc(e) for e in got][:60]},
                            replay_spec={"kind": "case1", "cfg": cfg, "filters": [names]})
        if len(b.samples) < 2:
            b.sample({"cfg": cfg, "filters": [sorted(c.__name__ for c in f) for f in filters], "ops": ops[:25], "unfiltered_events": len(s0)})
        if retry:
            sess.close()
            sess = None
            u.cleanup()
            run_case(b, cfg, retry, led, tp, _retry=True)
    finally:
        if sess is not None:
            try:
                sess.close()
            except Exception:  # noqa: BLE001
                pass
        u.cleanup()


def filter_family(r, tier):
    concrete, bases = classes()
    # the empty filter (accept nothing) is a filter too
    fam = [frozenset([c]) for c in concrete + bases] + [frozenset()]
    pairs = [frozenset(p) for p in itertools.combinations(concrete + bases, 2)]
    return fam, pairs, concrete + bases


def plan(tier, seed, jobs):
    specs = []
    if tier == "quick":
        for j in range(jobs):
            specs.append({"kind": "mix", "n": 24, "seed": seed, "j": j, "budget_s": 55, "k": 6})
    else:
        for j in range(jobs * 3):
            specs.append({"kind": "mix", "n": 260, "seed": seed, "j": j, "budget_s": 800, "k": 6})  # 7 inotify instances per case x 16 workers stays below the per-user limit of 128
    return specs


def by_names(names):
    from watchdog import events as ev

    return frozenset(getattr(ev, n) for n in names)


def run_batch(spec):
    b = Batch(spec)
    led = osledger.install()
    tp = vclock.install_counting_condition_only()
    if spec["kind"] == "mix":
        r = rng_for(spec["seed"], "C11", spec["j"])
        fam, pairs, allc = filter_family(r, None)
        singles = list(fam)
        r.shuffle(singles)
        for n in range(spec["n"]):
            if b.expired():
                break
            k = spec["k"]
            filters = []
            # cover every single class across the batch set, then pairs and larger subsets
            for i in range(k):
                x = r.random()
                if x < 0.5:
                    filters.append(singles[(spec["j"] * spec["n"] * k + n * k + i) % len(singles)])
                elif x < 0.8:
                    filters.append(r.choice(pairs))
                else:
                    filters.append(frozenset(r.sample(allc, r.randint(3, 6))))
            cfg = {"seed": spec["seed"] * 100003 + spec["j"] * 1009 + n, "recursive": r.random() < 0.75, "full": r.random() < 0.25,
                   "n_ops": r.randint(8, 22), "n_root": r.randint(1, 5), "n_out": r.randint(2, 4), "out_ops": r.random() < 0.5, "link_in_new_dir": r.random() < 0.3}
            run_case(b, cfg, filters, led, tp)
    elif spec["kind"] == "case1":
        run_case(b, spec["cfg"], [by_names(n) for n in spec["filters"]], led, tp)
    return b.to_dict()
