"""C07 - monitoring never silently dies while the observer runs and the root exists.
Hostile, *unpaced* histories (operations on directories after they left the tree, name re-use without pause, bursts,
root deletion), transient lookup failures injected at inotify_add_watch, and a directed sweep of the emitter's
self-stop (root deleted) against a concurrent unschedule().  Deciding monitors: threading.excepthook ledger, a probe
file created directly in the root after the history, the root-deletion contract."""

from __future__ import annotations

import ctypes
import errno
import os
import shutil
import threading
import time

from wdverif import fshist, fsrig, monitors
from wdverif.instrument import Hold, Instr
from wdverif.monitors import Batch, rng_for
from wdverif.props import c01

ID = "C07"
LEVEL = "exploration"
RULE = (
    "case = one unpaced hostile history (bursts with no pause, operations inside directories after they were moved out, names "
    "re-used at once, rename chains onto empty directories, mkdir/rmdir races) on a real InotifyObserver (plain / small reads / slow "
    "reader) or PollingObserver (10 ms), optionally with an errno injected at the k-th inotify_add_watch after start-up, optionally "
    "ending with rmtree(root); or one directed case (emitter self-stop held at a line of on_thread_stop while unschedule() runs).  "
    "Non-trivial iff the history contains an operation on a departed directory, a name re-use without pause, an injected failure that "
    "fired, or root deletion; distinct by (config, history)."
)
ASSUMPTIONS = [
    "per-directory coverage and event accuracy are not judged here (they need pacing: C01-C03); only survival: no library thread "
    "dies, the root's own watch still reports, root deletion yields exactly one DirDeletedEvent(root) and a stopped emitter",
    "transient failures are injected at the module-global inotify_add_watch of watchdog.observers.inotify_c (errno via ctypes.set_errno)",
]
MINIMUMS = {"quick": {"root_probes_judged": 300, "root_deletions_judged": 50, "faults_fired": 30, "selfstop_hold_cases_reached": 10, "api_hold_cases_reached": 50, "arrival_faults_fired": 15},
            "thorough": {"root_probes_judged": 8000, "root_deletions_judged": 1000}}
WALL_CAP = {"quick": 170, "thorough": 3000}

HOSTILE_BIAS = {"mkdir": 4, "makedirs": 3, "rename_dir": 6, "move_in": 4, "move_out": 5, "rmdir": 3, "rmtree": 3, "create": 2, "unlink": 2,
                "rename_replace": 3, "rename_file": 2, "write": 1, "chmod": 1}


class AddWatchFaults:
    """Proxy for inotify_c.inotify_add_watch: the k-th call after arming returns -1 with the chosen errno."""

    def __init__(self):
        from watchdog.observers import inotify_c

        self.mod = inotify_c
        self.real = inotify_c.inotify_add_watch
        self.n = 0
        self.plan: dict[int, int] = {}
        self.fired = []
        self.armed = False
        inotify_c.inotify_add_watch = self

    def __call__(self, fd, path, mask):
        if self.armed:
            i = self.n
            self.n += 1
            e = self.plan.get(i)
            if e is not None:
                self.fired.append((i, path, e))
                ctypes.set_errno(e)
                return -1
        return self.real(fd, path, mask)

    def restore(self):
        self.mod.inotify_add_watch = self.real


def hostile_cfg(r, seed, observer="inotify"):
    cfg = c01.make_cfg(r, seed)
    cfg.update({"pacing": False, "out_ops": True, "bias": HOSTILE_BIAS, "n_ops": r.randint(10, 40), "final_probes": False, "probe_p": 0.0,
                "root_probe": True, "delete_root": r.random() < 0.3, "observer": observer, "recursive": r.random() < 0.85})
    if observer == "inotify" and cfg["recursive"] and not cfg["delete_root"] and r.random() < 0.5:
        cfg["final_probes"] = True
    if observer == "polling":
        cfg.update({"mode": "plain", "read_size": None, "full": False, "selfloop": r.random() < 0.5})
    return cfg


def hostile_features(ops):
    """does the history contain an op on a departed directory / a name re-use without pause?"""
    departed = False
    reuse = False
    gone: set = set()
    for o in ops:
        if o[0] == "drain":
            gone.clear()
            continue
        if o[0] in ("create", "mkdir", "write", "unlink", "rmtree", "makedirs") and o[1].startswith("out/") and o[1].count("/") >= 2:
            departed = True
        if o[0] in ("create", "mkdir", "makedirs") and o[1] in gone:
            reuse = True
        if o[0] in ("rename", "move_in") and o[2] in gone:
            reuse = True
        if o[0] in ("unlink", "rmdir", "rmtree"):
            gone.add(o[1])
        if o[0] in ("rename", "move_out"):
            gone.add(o[1])
    return departed, reuse


def name_reused_before(ops, rel_dir, root_name):
    """Was the path of `rel_dir` (or of one of its ancestors), within the last un-drained segment of the history, given up by
    one directory (renamed / moved away / removed) and taken by another one afterwards?  Then the events of the first
    directory and the walk that finds the second one race, and inotify events carry names, not identities."""
    seg, cur = [], []
    for o in ops:
        if o[0] == "drain":
            if cur:
                seg = cur
            cur = []
        else:
            cur.append(o)
    if cur:
        seg = cur
    full = root_name + ("/" + rel_dir if rel_dir else "")
    chain = [full]
    while "/" in chain[-1]:
        chain.append(chain[-1].rsplit("/", 1)[0])
    chain = set(chain)
    vacated = set()
    for o in seg:
        k = o[0]
        if k in ("rename", "move_out") and o[1] in chain:
            vacated.add(o[1])
        elif k in ("rmdir", "rmtree", "unlink") and o[1] in chain:
            vacated.add(o[1])
        taken = None
        if k in ("mkdir", "makedirs", "burst", "create"):
            taken = o[1]
        elif k in ("rename", "move_in"):
            taken = o[2]
        if taken is not None:
            # makedirs creates the missing ancestors too
            t = taken
            while True:
                if t in vacated:
                    return True
                if k != "makedirs" or "/" not in t:
                    break
                t = t.rsplit("/", 1)[0]
    return False


def run_hostile(b: Batch, cfg, faults: AddWatchFaults | None = None, fault_plan=None):
    ins = None
    if "slow" in cfg.get("mode", ""):
        ins = c01.slow_reader_instr(cfg["seed"])
        ins.start()
    if faults is not None:
        faults.n = 0
        faults.fired = []
        faults.plan = fault_plan or {}
        faults.armed = False
    try:
        h = fshist.History(cfg)
        if faults is not None and fault_plan:
            # arm after the watch has been set up: count only calls made for changes after start-up
            orig = fshist.Session.__init__

            def init(self, *a, **kw):
                orig(self, *a, **kw)
                faults.armed = True

            fshist.Session.__init__ = init
            try:
                h.run()
            finally:
                fshist.Session.__init__ = orig
                faults.armed = False
        else:
            h.run()
    finally:
        if ins is not None:
            ins.stop()
    departed, reuse = hostile_features(h.ops)
    fired = bool(faults and faults.fired)
    if fired:
        b.count("faults_fired")
        b.add("fault_errnos", errno.errorcode.get(faults.fired[0][2], "?"))
    if departed:
        b.count("histories_with_ops_on_departed_dirs")
    if reuse:
        b.count("histories_with_name_reuse")
    if cfg.get("final_probes") and not fired:
        # "later changes in the tree go unreported": after the (unpaced) history has drained, a file created in each existing
        # directory of a recursive watch must be reported (the probe oracle of C02, here after hostile histories)
        b.count("hostile_histories_with_final_probes")
        for p_, mech, msg, det in list(h.viol):
            if p_ == "C02" and mech.split(":")[0] in ("probe-unreported",):
                d_ = (det or {}).get("directory", "")
                rel_d = d_[len(h.u.root_name) + 1:] if d_.startswith(h.u.root_name + "/") else ""
                if name_reused_before(h.ops, rel_d, h.u.root_name):
                    h.viol.append(("C07", "coverage-lost-when-a-name-was-reused-before-its-events-were-read",
                                   "after the history had drained: " + msg, det))
                else:
                    h.viol.append(("C07", "later-changes-unreported", "after the history had drained: " + msg, det))
                break
    fshist.account(b, h, "C07", dict(cfg, fault_plan=fault_plan), nontrivial=(departed or reuse or fired or cfg.get("delete_root")))
    b.add("modes", cfg.get("observer", "inotify") + ":" + cfg.get("mode", "plain"))
    return h


def run_selfstop_hold(b: Batch, line, partner, seed):
    """Root deleted => the emitter stops itself; it is parked at `line` of InotifyEmitter.on_thread_stop while another
    thread's unschedule()/stop() runs to completion."""
    import tempfile

    from watchdog.observers.inotify import InotifyEmitter, InotifyObserver

    base = tempfile.mkdtemp(prefix="wdv-c07h-")
    root = os.path.join(base, "root")
    os.mkdir(root)
    mark = monitors.exc_mark()
    ins = Instr(seed=seed)
    ins.watch(InotifyEmitter.on_thread_stop)
    col = fsrig.Collector(set())
    obs = InotifyObserver()
    b.case()
    try:
        with ins:
            w = obs.schedule(col, root, recursive=True)
            obs.start()
            hold = ins.add_hold(Hold("InotifyEmitter", "InotifyEmitter.on_thread_stop", line, nth=1, timeout=8.0))
            shutil.rmtree(root)
            reached = hold.wait_reached(5.0)
            res = {}
            if reached:
                def part():
                    try:
                        if partner == "unschedule":
                            obs.unschedule(w)
                        elif partner == "unschedule_all":
                            obs.unschedule_all()
                        else:
                            obs.stop()
                    except KeyError:
                        pass
                t = threading.Thread(target=part, name="wdv-partner", daemon=True)
                t.start()
                t.join(0.3)
                hold.release()
                t.join(10)
                res["partner_hung"] = t.is_alive()
            else:
                hold.release()
            time.sleep(0.05)
            obs.stop()
            obs.join(10)
    finally:
        shutil.rmtree(base, ignore_errors=True)
    b.count("selfstop_hold_cases_reached" if reached else "selfstop_hold_cases_not_reached")
    if reached:
        b.add("selfstop_hold_points", f"{line}:{partner}")
        b.nontrivial(["selfstop", str(line), partner])
    for rec in monitors.exc_since(mark):
        if rec["library"]:
            b.violation(f"library-thread-died:{rec['exc_type']}",
                        f"root deleted, emitter self-stop parked at on_thread_stop line {line} while {partner}() ran: thread {rec['thread_class']} died with {rec['exc_type']}: {rec['exc']}",
                        witness={"line": line, "partner": partner, "traceback": rec["traceback"][-1200:]},
                        replay_spec={"kind": "selfstop1", "line": line, "partner": partner})
            break


ARRIVAL_SHAPES = [["x"], ["x", "y"], ["x", "x/y"], ["x", "y", "z"], ["x", "x/y", "z"], ["x", "x/y", "x/y/z"], ["x", "y", "y/w", "z"]]


def run_arrival_fault(b: Batch, faults: AddWatchFaults, shape, method, j, en, seed):
    """A directory tree arrives in a recursively watched root (moved in from outside, or created in place as one burst) while
    the j-th inotify_add_watch fails: every directory of the tree outside the sub-tree whose watch failed must still be covered."""
    import random

    u = fsrig.Universe(random.Random(seed))
    sess = None
    b.case()
    try:
        dirs = [""] + shape
        if method == "move_in":
            os.mkdir(u.abs("out/t"))
            u.m.t["out/t"] = "d"
            for d in shape:
                os.mkdir(u.abs("out/t/" + d))
                u.m.t["out/t/" + d] = "d"
        sess = fsrig.Session(u, recursive=True, delay=0.1)
        sess.drain()
        sess.take()
        faults.n = 0
        faults.fired = []
        faults.plan = {j: en}
        faults.armed = True
        try:
            if method == "move_in":
                u.do(("move_in", "out/t", "root/t"))
            else:
                u.do(("burst", "root/t", [("", "d")] + [(d, "d") for d in shape]))
            sess.drain()
        finally:
            faults.armed = False
        sess.take()
        fired = list(faults.fired)
        failed_rel = None
        if fired:
            failed_rel = sess.rel_of(os.fsdecode(fired[0][1]))
            b.count("faults_fired")
            b.count("arrival_faults_fired")
            b.add("fault_errnos", errno.errorcode.get(en, "?"))
        # probe every directory of the arrived tree
        made = []
        for i, d in enumerate(dirs):
            rel = "t" if d == "" else "t/" + d
            name = f"{fsrig.PROBE}{i}"
            fd = os.open(u.abs("root/" + rel + "/" + name), os.O_CREAT | os.O_EXCL | os.O_WRONLY, 0o644)
            os.close(fd)
            made.append((rel, rel + "/" + name))
        sess.drain()
        evs = sess.take()
        got = {e.src_path for e in evs if type(e).__name__ == "FileCreatedEvent"}
        for rel, p in made:
            if failed_rel is not None and (rel == failed_rel or rel.startswith(failed_rel + "/")):
                continue  # a directory that "vanished" takes everything below it along: only the others are judged
            b.count("arrival_probes_judged")
            if sess.spell(p) not in got:
                b.violation("directory-lost-after-transient-add-watch-failure",
                            f"{method} of a tree {shape}: inotify_add_watch #{j} failed with {errno.errorcode.get(en)} for {failed_rel!r}; directory {rel!r} (another one) is not covered afterwards",
                            witness={"shape": shape, "method": method, "j": j, "errno": errno.errorcode.get(en), "failed": failed_rel, "uncovered": rel},
                            replay_spec={"kind": "arrival1", "shape": shape, "method": method, "j": j, "errno": en})
        if fired:
            b.nontrivial(["arrival", shape, method, j, en])
    except fsrig.DrainFailed as e:
        recs = e.detail or []
        if e.reason == "library-thread-died" and recs:
            b.violation(f"library-thread-died:{recs[0]['exc_type']}", f"{method} of {shape} with add_watch #{j} failing ({errno.errorcode.get(en)}): {recs[0]['thread_class']} died: {recs[0]['exc']}",
                        witness={"shape": shape, "method": method, "j": j, "traceback": recs[0]["traceback"][-1200:]},
                        replay_spec={"kind": "arrival1", "shape": shape, "method": method, "j": j, "errno": en})
        else:
            b.inconc("C07 arrival-fault case: sentinel not delivered")
    finally:
        if sess is not None:
            try:
                sess.close()
            except Exception:  # noqa: BLE001
                pass
        u.cleanup()


def discover_selfstop_lines():
    import tempfile

    from watchdog.observers.inotify import InotifyEmitter, InotifyObserver

    ins = Instr()
    ins.watch(InotifyEmitter.on_thread_stop)
    ins.discover = True
    base = tempfile.mkdtemp(prefix="wdv-c07d-")
    root = os.path.join(base, "root")
    os.mkdir(root)
    with ins:
        obs = InotifyObserver()
        obs.schedule(fsrig.Collector(set()), root, recursive=True)
        obs.start()
        em = list(obs.emitters)
        shutil.rmtree(root)
        end = time.monotonic() + 5
        while time.monotonic() < end and any(e.is_alive() for e in em):
            time.sleep(0.01)
        obs.stop()
        obs.join(5)
    shutil.rmtree(base, ignore_errors=True)
    return sorted({ln for role, qn, ln in ins.points if role == "InotifyEmitter" and qn == "InotifyEmitter.on_thread_stop"}, key=str)


def plan(tier, seed, jobs):
    specs = []
    if tier == "quick":
        for j in range(jobs - 4):
            specs.append({"kind": "hostile", "n": 200, "seed": seed, "j": j, "budget_s": 40, "observer": "inotify"})
        for j in range(2):
            specs.append({"kind": "hostile", "n": 100, "seed": seed, "j": 100 + j, "budget_s": 40, "observer": "polling"})
        for j in range(3):
            specs.append({"kind": "faults", "n": 150, "seed": seed, "j": j, "budget_s": 40})
        specs.append({"kind": "selfstop", "reps": 2, "seed": seed, "budget_s": 60})
        specs.append({"kind": "arrival", "errnos": [errno.ENOENT, errno.ENOSPC], "seed": seed, "budget_s": 60})
        for j in range(3):
            specs.append({"kind": "apiholds", "seed": seed, "j": j, "of": 3, "budget_s": 60})
    else:
        for j in range(jobs * 3):
            specs.append({"kind": "hostile", "n": 5000, "seed": seed, "j": j, "budget_s": 150, "observer": "inotify"})
        for j in range(jobs):
            specs.append({"kind": "hostile", "n": 3000, "seed": seed, "j": 100 + j, "budget_s": 150, "observer": "polling"})
        for j in range(jobs):
            specs.append({"kind": "faults", "n": 4000, "seed": seed, "j": j, "budget_s": 150})
        for j in range(4):
            specs.append({"kind": "selfstop", "reps": 10, "seed": seed + j, "budget_s": 600})
        for j in range(jobs):
            specs.append({"kind": "apiholds", "seed": seed, "j": j, "of": jobs, "budget_s": 250, "reps": 8})
        specs.append({"kind": "arrival", "errnos": [errno.ENOENT, errno.ENOSPC, errno.EACCES], "seed": seed, "budget_s": 600})
    return specs


def run_batch(spec):
    b = Batch(spec)
    k = spec["kind"]
    if k == "hostile":
        r = rng_for(spec["seed"], "C07", spec["j"])
        for n in range(spec["n"]):
            if b.expired():
                break
            cfg = hostile_cfg(r, spec["seed"] * 1000003 + spec["j"] * 10007 + n, spec["observer"])
            run_hostile(b, cfg)
    elif k == "faults":
        r = rng_for(spec["seed"], "C07f", spec["j"])
        faults = AddWatchFaults()
        try:
            for n in range(spec["n"]):
                if b.expired():
                    break
                cfg = hostile_cfg(r, spec["seed"] * 1000003 + spec["j"] * 10007 + n + 500000)
                cfg["bias"] = dict(HOSTILE_BIAS, mkdir=8, makedirs=6, move_in=6)
                plan_ = {r.randrange(0, 8): r.choice([errno.ENOENT, errno.ENOSPC, errno.EACCES, errno.ENOTDIR]) for _ in range(r.randint(1, 3))}
                run_hostile(b, cfg, faults, plan_)
        finally:
            faults.restore()
    elif k == "selfstop":
        lines = discover_selfstop_lines()
        for ln in lines:
            b.add("selfstop_lines_planned", str(ln))
        if not lines:
            b.inconc("no lines discovered in InotifyEmitter.on_thread_stop")
        for rep in range(spec["reps"]):
            for ln in lines:
                for partner in ("unschedule", "unschedule_all", "stop"):
                    if b.expired():
                        break
                    run_selfstop_hold(b, ln, partner, spec["seed"] + rep)
    elif k == "arrival":
        faults = AddWatchFaults()
        try:
            for shape in ARRIVAL_SHAPES:
                for method in ("move_in", "burst"):
                    for j in range(len(shape) + 2):
                        for en in spec["errnos"]:
                            if b.expired():
                                break
                            run_arrival_fault(b, faults, shape, method, j, en, spec["seed"])
        finally:
            faults.restore()
        b.sample({"arrival_fault": {"shapes": ARRIVAL_SHAPES[:3], "methods": ["move_in", "burst"], "positions": "every add_watch of the arrival"}})
    elif k == "arrival1":
        faults = AddWatchFaults()
        try:
            run_arrival_fault(b, faults, spec["shape"], spec["method"], spec["j"], spec["errno"], 1)
        finally:
            faults.restore()
    elif k == "apiholds":
        # the "no sequence of API calls" clause: library threads parked at every discovered line of the read/emit/close paths
        # while stop()/unschedule()/root removal runs; any library thread dying with an exception is a violation
        from wdverif import apireal
        from wdverif.env import osledger

        led = osledger.install()
        pts = [p for p in apireal.discover("inotify", spec["seed"])]
        ins = apireal.instr_for_pipeline(spec["seed"])
        r = rng_for(spec["seed"], "C07h", spec["j"])
        with ins:
            for rep in range(spec.get("reps", 1)):
                for i, pt in enumerate(pts):
                    if i % spec["of"] != spec["j"] or b.expired():
                        continue
                    closer = pt[0].startswith("wdv-call-")
                    for partner in (["touch", "rmroot"] if closer else ["stop", "unschedule", "rmroot"]):
                        nth = r.choice([1, 1, 2])
                        ev = r.choice([False, True, "mkdirs"])
                        out = apireal.hold_case(ins, led, "inotify", pt, nth, partner, ev)
                        b.case()
                        b.count("api_hold_cases_reached" if out["reached"] else "api_hold_cases_not_reached")
                        if out["reached"]:
                            b.add("api_hold_points_reached", f"{pt[0]}:{pt[1]}:{pt[2]}")
                            b.nontrivial(["apihold", list(map(str, pt)), nth, partner, ev])
                        for x in out["exceptions"]:
                            b.violation(f"library-thread-died:{x['exc'].split(':')[0]}",
                                        f"{x['thread']} died with {x['exc']} while parked at {pt[1]}:{pt[2]} (role {pt[0]}) and {partner}() ran",
                                        witness={"point": list(map(str, pt)), "partner": partner, "nth": nth, "event": ev, "traceback": x["tb"], "log": out["log"]},
                                        replay_spec={"kind": "apihold1", "point": list(pt), "partner": partner, "nth": nth, "event": ev})
    elif k == "apihold1":
        from wdverif import apireal
        from wdverif.env import osledger

        led = osledger.install()
        ins = apireal.instr_for_pipeline(1)
        with ins:
            for _ in range(3):
                out = apireal.hold_case(ins, led, "inotify", tuple(spec["point"]), spec["nth"], spec["partner"], spec["event"])
                b.case()
                for x in out["exceptions"]:
                    b.violation(f"library-thread-died:{x['exc'].split(':')[0]}", f"{x['thread']} died with {x['exc']}", witness={"tb": x["tb"]})
    elif k == "selfstop1":
        for _ in range(3):
            run_selfstop_hold(b, spec["line"], spec["partner"], 1)
    elif k == "history1":
        cfg = spec["cfg"]
        fp = cfg.pop("fault_plan", None)
        if fp:
            faults = AddWatchFaults()
            try:
                run_hostile(b, cfg, faults, {int(k_): v for k_, v in fp.items()})
            finally:
                faults.restore()
        else:
            run_hostile(b, cfg)
    return b.to_dict()
