"""C18 - tricks: debounced batches complete and ordered; one child at a time; stop ends all.

Real EventDebouncer / ProcessWatcher / AutoRestartTrick / ShellCommandTrick over a simulated process table
(env/proctable.py behind tricks.subprocess / tricks.kill_process / tricks.time).  Deciding monitors: the batch log of the
debouncer callback, the process table's transition log (live set after every transition), the thread ledger, and a logical
stuck test (thread parked in an untimed wait in repeated stack samples)."""

from __future__ import annotations

import threading
import time

from wdverif import monitors
from wdverif.env import proctable
from wdverif.instrument import Hold, Instr
from wdverif.monitors import Batch, rng_for

ID = "C18"
LEVEL = "exploration"
RULE = (
    "case = (debouncer: interval 20-50 ms, a script of event arrivals with gaps around the interval, optional slow callback, stop at "
    "the end or in the middle, optional directed hold of the debouncer thread at START / a line of run) | (auto-restart: debounce on/off, "
    "restart_on_command_exit on/off, children that die after k polls / ignore SIGINT / exit by themselves, a script of events, waits and a "
    "stop() from the same or another thread, optional directed hold inside _stop_process/_restart_process/_start_process) | (shell "
    "command: wait_for_process or drop_during_process, commands that exit after 10-60 ms, events with small gaps).  Non-trivial iff >=2 "
    "events in one batch, a restart overlapping another trigger, or stop during a restart; distinct by the case description."
)
ASSUMPTIONS = [
    "processes are simulated (fake Popen / kill_process table); real subprocesses and signals are not exercised",
    "events reach a trick from one thread at a time (as a single observer delivers them); stop() may come from another thread",
    "debounce timing is judged with 2 ms tolerance and never by itself: 'event never delivered' needs the debouncer thread parked in an "
    "untimed wait in repeated stack samples",
]
MINIMUMS = {"quick": {"debouncer_cases": 150, "autorestart_cases": 150, "shell_cases": 25, "hold_cases_reached": 30},
            "thorough": {"debouncer_cases": 5000, "autorestart_cases": 5000, "shell_cases": 1000, "hold_cases_reached": 1000}}
WALL_CAP = {"quick": 170, "thorough": 3000}


def mk_event(i):
    from watchdog.events import FileCreatedEvent, FileModifiedEvent, FileMovedEvent

    # every third / fourth event is one of the synthetic events emitters generate for the contents of a directory that was
    # renamed or moved in: triggering events like any other
    if i % 4 == 3:
        return FileMovedEvent(f"/t/old/e{i}", f"/t/e{i}", is_synthetic=True)
    if i % 3 == 2:
        return FileCreatedEvent(f"/t/e{i}", is_synthetic=True)
    return FileModifiedEvent(f"/t/e{i}")


def parked_untimed(thread, samples=3, interval=0.25):
    """True iff the thread sits in an untimed Condition.wait / lock acquire with an identical stack in all samples."""
    fps = []
    for _ in range(samples):
        st = monitors.stack_of(thread, 6)
        fps.append(tuple(st))
        time.sleep(interval)
    if len(set(fps)) != 1 or not fps[0]:
        return False, fps[-1]
    top = fps[0][-1]
    return ("threading.py" in top and (":wait" in top or ":acquire" in top or "_wait_for_tstate_lock" in top)), list(fps[0])


# ================================================================================================ debouncer
def run_debouncer(b: Batch, cfg, instr=None, hold_plan=None):
    from watchdog.utils.event_debouncer import EventDebouncer

    interval = cfg["interval"]
    batches = []
    cb_lock = threading.Lock()

    def callback(events):
        t0 = time.monotonic()
        if cfg.get("slow_cb"):
            time.sleep(cfg["slow_cb"])
        with cb_lock:
            batches.append({"t": t0, "events": list(events)})
            first = len(batches) == 1
        if first and cfg.get("reenter") == "event":
            # the callback feeds a follow-up event back into its own debouncer (it runs on the debouncer's thread)
            e2 = mk_event(1000)
            tc2 = time.monotonic()
            deb.handle_event(e2)
            handled.append((e2, tc2, time.monotonic()))
        elif first and cfg.get("reenter") == "stop":
            deb.stop()

    deb = EventDebouncer(interval, callback)
    handled = []  # (event, t_call, t_ret)
    b.case()
    b.count("debouncer_cases")
    rs = {"kind": "deb1", "cfg": cfg, "hold": hold_plan}
    hold = None
    if hold_plan is not None:
        hold = instr.add_hold(Hold("EventDebouncer", hold_plan["qualname"], hold_plan["line"], nth=hold_plan.get("nth", 1), timeout=4.0))
    deb.start()
    reached = False
    t_stop_call = t_stop_ret = None
    stopper = None
    try:
        for i, gap in enumerate(cfg["gaps"]):
            if gap:
                time.sleep(gap)
            if hold is not None and not reached and hold.reached.is_set():
                reached = True
            e = mk_event(i // 2 if cfg.get("equal_events") else i)  # equal-valued, distinct objects: each must be delivered
            tc = time.monotonic()
            # handle_event needs the debouncer's condition; if the debouncer is parked by the harness while holding it, deliver from a helper
            box = {}

            def send(e=e, box=box):
                deb.handle_event(e)
                box["t"] = time.monotonic()

            th = threading.Thread(target=send, name="wdv-events", daemon=True)
            th.start()
            th.join(0.2 if hold is not None else 5)
            if th.is_alive():
                if hold is not None:
                    hold.release()
                th.join(5)
            handled.append((e, tc, box.get("t")))
            if cfg.get("stop_after") == i:
                break
        if hold is not None:
            if hold.wait_reached(0.3):
                reached = True
                if hold_plan.get("stop_while_held"):
                    stopper = threading.Thread(target=deb.stop, name="wdv-stopper", daemon=True)
                    t_stop_call = time.monotonic()
                    stopper.start()
                    stopper.join(0.15)
            hold.release()
        early_stop = cfg.get("stop_after") is not None or (hold_plan or {}).get("stop_while_held") or cfg.get("reenter") == "stop"
        if not early_stop:
            # wait for the quiet period to elapse and the batch to arrive
            end = time.monotonic() + interval + cfg.get("slow_cb", 0) + 6.0
            while time.monotonic() < end:
                with cb_lock:
                    n = sum(len(x["events"]) for x in batches)
                if n >= len(handled):
                    break
                time.sleep(0.003)
        if stopper is None:
            t_stop_call = time.monotonic()
            st, _v, th = monitors.call_with_watchdog(deb.stop, 6.0, "deb-stop")
            if st == "hung":
                stuck, stack = parked_untimed(deb)
                b.violation("debouncer-stop-blocks", f"EventDebouncer.stop() did not return; debouncer stack {stack}", witness=dict(rs, stack=stack), replay_spec=rs)
                return
        else:
            stopper.join(6)
        t_stop_ret = time.monotonic()
        deb.join(5.0)
    finally:
        if instr is not None:
            instr.clear_holds()
    if hold_plan is not None:
        b.count("hold_cases_reached" if reached else "hold_cases_not_reached")
        if reached:
            b.add("hold_points_reached", f"EventDebouncer:{hold_plan['qualname']}:{hold_plan['line']}")
    wit = dict(rs, batches=[{"t": round(x["t"] - handled[0][1], 4) if handled else 0, "events": [e.src_path for e in x["events"]]} for x in batches],
               handled=[(e.src_path, round(tc - handled[0][1], 4)) for e, tc, _ in handled])
    if deb.is_alive():
        stuck, stack = parked_untimed(deb)
        if stuck:
            b.violation("debouncer-thread-never-exits", f"stop() returned but the debouncer thread is parked for ever: {stack[-3:]}", witness=dict(wit, stack=stack), replay_spec=rs)
        else:
            b.inconc("debouncer thread still alive after stop()+join(5) but not parked")
        return
    delivered = [e for x in batches for e in x["events"]]
    ids = [id(e) for e in delivered]
    known = {id(e) for e, _, _ in handled}
    phantom = [e.src_path for e in delivered if id(e) not in known]
    if phantom:
        b.violation("debouncer-phantom-event", f"the callback received events that were never handed to this debouncer: {phantom[:4]}", witness=wit, replay_spec=rs)
        return
    if len(ids) != len(set(ids)):
        b.violation("debouncer-duplicate", "an event appears in two batches", witness=wit, replay_spec=rs)
    order = [e for e, _, _ in handled if id(e) in set(ids)]
    if [id(e) for e in order] != ids:
        b.violation("debouncer-order", "batches do not preserve arrival order", witness=wit, replay_spec=rs)
    if not early_stop:
        missing = [e.src_path for e, _, tr in handled if id(e) not in set(ids)]
        if missing:
            b.violation("debouncer-event-never-delivered", f"events {missing} were handed to the debouncer, a quiet period of interval + 6 s passed, and they are in no batch",
                        witness=wit, replay_spec=rs)
    for x in batches:
        if x["t"] > t_stop_ret:
            b.violation("debouncer-callback-after-stop", "a batch was delivered after stop() had returned", witness=wit, replay_spec=rs)
        if not x["events"]:
            continue
        tcs = {id(e): tc for e, tc, _ in handled}
        trets = {id(e): (tr if tr is not None else tc) for e, tc, tr in handled}
        # first event: the time it was handed over at the latest (call stamp); last event: when handle_event() had returned
        # (under load the helper thread may get to the call late: the debouncer cannot have seen the event before that)
        # an event reaches the debouncer at some moment between the call of handle_event() and its return; only the call stamp
        # is a sound lower bound (under load the helper thread may be descheduled for long after the call has done its work)
        first, last = tcs[id(x["events"][0])], tcs[id(x["events"][-1])]
        b.count("debounce_timings_judged")
        if x["t"] - first < interval - 0.002:
            b.violation("debouncer-too-early", f"batch delivered {x['t'] - first:.4f} s after its first event (interval {interval})", witness=wit, replay_spec=rs)
        elif x["t"] - last < interval - 0.002:
            b.violation("debouncer-too-early", f"batch delivered {x['t'] - last:.4f} s after handle_event() was called for its last event (interval {interval})", witness=wit, replay_spec=rs)
    if any(len(x["events"]) >= 2 for x in batches) or reached:
        b.nontrivial(["deb", cfg, hold_plan])
    if len(b.samples) < 1 and len(batches) >= 1:
        b.sample({"debouncer": cfg, "batches": [[e.src_path for e in x["events"]] for x in batches]})


def run_stop_vs_start(b: Batch, what, mode, r):
    """stop() before start() / racing start() of a helper thread (EventDebouncer, ProcessWatcher): the stop request must not
    be forgotten - the thread ends and nothing is delivered afterwards."""
    from watchdog.utils.event_debouncer import EventDebouncer
    from watchdog.utils.process_watcher import ProcessWatcher

    delivered = []
    if what == "debouncer":
        th = EventDebouncer(0.01, lambda evs: delivered.append(("batch", len(evs))))
    else:
        class _P:  # a child that has already ended
            def poll(self):
                return 0

        th = ProcessWatcher(_P(), lambda: delivered.append(("terminated", 1)))
    rs = {"kind": "svs1", "what": what, "mode": mode}
    b.case()
    b.count("stop_vs_start_cases")
    if mode == "stop_then_start":
        th.stop()
        th.start()
    else:
        bar = threading.Barrier(2)

        def a():
            bar.wait()
            th.start()

        def c():
            bar.wait()
            if mode == "race_late":
                time.sleep(r.choice([0.0, 0.0002, 0.001]))
            th.stop()

        ts = [threading.Thread(target=a, name="wdv-starter", daemon=True), threading.Thread(target=c, name="wdv-stopper", daemon=True)]
        for t in ts:
            t.start()
        for t in ts:
            t.join(5)
    t_stopped = time.monotonic()
    if what == "debouncer":
        try:
            th.handle_event(mk_event(0))
        except Exception:  # noqa: BLE001
            pass
    th.join(3.0)
    b.nontrivial(["svs", what, mode, r.random()])
    if th.is_alive():
        stuck, stack = parked_untimed(th)
        b.violation("helper-thread-ignores-stop-before-start", f"{what}: stop() was requested ({mode}) but the thread is still running 3 s later", witness=dict(rs, stack=stack), replay_spec=rs)
        th.stop()
        return
    time.sleep(0.03)
    if what == "debouncer" and delivered:
        b.violation("debouncer-callback-after-stop", f"{what}: {delivered} delivered although stop() had been requested before ({mode})", witness=rs, replay_spec=rs)


# ================================================================================================ auto restart
def audit_table(b, table, rs, wit, ctx):
    peak = 0
    for rec in table.log:
        peak = max(peak, len(rec["live"]))
    b.count("table_transitions_judged", len(table.log))
    if peak > 1:
        bad = next(r for r in table.log if len(r["live"]) > 1)
        spawner = {r["pid"]: (r["thread"], r["thread_class"]) for r in table.log if r["what"] == "spawn"}
        who = sorted({spawner[p] for p in bad["live"] if p in spawner})
        if ctx == "autorestart" and len(who) >= 2:
            # two of the trick's threads (dispatcher / debouncer / process watcher) ran a restart at the same time
            mech = "autorestart-concurrent-restarts-two-children"
        else:
            mech = f"{ctx}-two-children-alive"
        b.violation(mech, f"{len(bad['live'])} processes alive at once after {bad['what']} of pid {bad['pid']} (children started by {who})",
                    witness=dict(wit, table=table.log[-30:]), replay_spec=rs)
    return peak


def run_autorestart(b: Batch, inst, cfg, instr=None, hold_plan=None):
    from watchdog.tricks import AutoRestartTrick

    table = inst.fresh(behaviours=[dict(x) for x in cfg["behaviours"]], default={"die_after_polls": 1})
    threads0 = set(threading.enumerate())
    trick = AutoRestartTrick(["cmd"], debounce_interval_seconds=cfg["debounce"], restart_on_command_exit=cfg["restart_on_exit"], kill_after=cfg.get("kill_after", 10))
    b.case()
    b.count("autorestart_cases")
    rs = {"kind": "auto1", "cfg": cfg, "hold": hold_plan}
    hold = None
    reached = False
    events_sent = 0
    stop_rec = {}
    stop_thread = None

    def do_stop():
        stop_rec["call"] = proctable.stamp()
        try:
            trick.stop()
        except BaseException as e:  # noqa: BLE001
            import traceback

            stop_rec["exc"] = f"{type(e).__name__}: {e}"
            stop_rec["tb"] = traceback.format_exc()[-900:]
        stop_rec["ret"] = proctable.stamp()
        stop_rec["live_at_ret"] = table.live_now()

    import watchdog.tricks as _tricks

    real_pw = _tricks.ProcessWatcher
    if cfg.get("watcher_fail_at"):
        # the watcher thread of the nth child cannot be started (thread limit reached at that moment): the child that was
        # just spawned must still be known to the trick (stopped by the next restart / by stop())
        nth = {"n": 0}

        class FailingWatcher(real_pw):
            def start(self):
                nth["n"] += 1
                if nth["n"] == cfg["watcher_fail_at"]:
                    b.count("watcher_start_failures_injected")
                    raise RuntimeError("can't start new thread")
                super().start()

        _tricks.ProcessWatcher = FailingWatcher
    try:
        try:
            trick.start()
        except RuntimeError:
            if not cfg.get("watcher_fail_at"):
                raise
        if hold_plan is not None:
            hold = instr.add_hold(Hold(hold_plan["role"], hold_plan["qualname"], hold_plan["line"], nth=hold_plan.get("nth", 1), timeout=4.0))
        ev_thread = None
        for step in cfg["script"]:
            if step[0] == "event":
                e = mk_event(events_sent)
                events_sent += 1
                # one delivering thread at a time (the observer's dispatcher)
                if ev_thread is not None:
                    ev_thread.join(8)
                def deliver(e=e):
                    try:
                        trick.dispatch(e)
                    except RuntimeError:
                        if not cfg.get("watcher_fail_at"):
                            raise

                ev_thread = threading.Thread(target=deliver, name="wdv-events", daemon=True)
                ev_thread.start()
                if hold is None:
                    ev_thread.join(8)
                else:
                    ev_thread.join(0.05)
            elif step[0] == "wait":
                time.sleep(step[1])
            elif step[0] == "stop_async":
                stop_thread = threading.Thread(target=do_stop, name="wdv-stopper", daemon=True)
                stop_thread.start()
                stop_thread.join(0.05)
            if hold is not None and not reached and hold.reached.is_set():
                reached = True
                if hold_plan.get("linger"):
                    time.sleep(hold_plan["linger"])
                if hold_plan.get("stop_while_held") and stop_thread is None:
                    stop_thread = threading.Thread(target=do_stop, name="wdv-stopper", daemon=True)
                    stop_thread.start()
                    stop_thread.join(0.2)
                hold.release()
        if hold is not None:
            if not reached and hold.wait_reached(0.3):
                reached = True
                if hold_plan.get("stop_while_held") and stop_thread is None:
                    stop_thread = threading.Thread(target=do_stop, name="wdv-stopper", daemon=True)
                    stop_thread.start()
                    stop_thread.join(0.2)
            hold.release()
        if ev_thread is not None:
            ev_thread.join(8)
        if stop_thread is None:
            stop_thread = threading.Thread(target=do_stop, name="wdv-stopper", daemon=True)
            stop_thread.start()
        stop_thread.join(10)
    finally:
        _tricks.ProcessWatcher = real_pw
        if instr is not None:
            instr.clear_holds()
    wit = dict(rs, table=table.log[-40:], stop=stop_rec)
    if hold_plan is not None:
        b.count("hold_cases_reached" if reached else "hold_cases_not_reached")
        if reached:
            b.add("hold_points_reached", f"{hold_plan['role']}:{hold_plan['qualname']}:{hold_plan['line']}")
    if stop_thread.is_alive():
        stuck, stack = parked_untimed(stop_thread)
        if stuck:
            b.violation("autorestart-stop-blocks", f"AutoRestartTrick.stop() does not return: {stack[-4:]}", witness=dict(wit, stack=stack), replay_spec=rs)
        else:
            b.inconc("AutoRestartTrick.stop() slow")
        return
    if stop_rec.get("exc") and cfg.get("watcher_fail_at") and "cannot join thread before it is started" in stop_rec["exc"]:
        # the watcher whose start() failed is joined at the very end of stop(), after the child has been dealt with: the error
        # escaping there is outside what the statement promises; the child / thread audits below still apply
        b.count("stop_raised_after_injected_watcher_failure")
    elif stop_rec.get("exc"):
        b.violation("autorestart-stop-raised", f"AutoRestartTrick.stop() raised {stop_rec['exc']}", witness=wit, replay_spec=rs)
    peak = audit_table(b, table, rs, wit, "autorestart")
    spawns_before_stop = [r for r in table.log if r["what"] == "spawn" and r["t"] < stop_rec["ret"]]
    last_spawned = spawns_before_stop[-1]["pid"] if spawns_before_stop else None
    # after stop() returned: no live child, no later spawn, helper threads gone
    time.sleep(0.25)
    live_later = table.live_now()
    later_spawns = [r for r in table.log if r["what"] == "spawn" and r["t"] > stop_rec["ret"]]
    if stop_rec.get("live_at_ret"):
        # was a restart's stop in flight when stop() was called?  (mechanism of the recorded finding F11)
        # stop() skipped its own _stop_process() body because another thread's was in flight: the stopper never signalled
        # the child, some other thread did (before or after stop() returned)
        time.sleep(0.1)
        alive_pids = stop_rec["live_at_ret"]
        by_stopper = [r for r in table.log if r["what"] == "signal" and r["pid"] in alive_pids and r["thread"] == "wdv-stopper"]
        by_other = [r for r in table.log if r["what"] == "signal" and r["pid"] in alive_pids and r["thread"] != "wdv-stopper"]
        sig_before = by_other if not by_stopper else []
        orphan = peak > 1 and any(p != last_spawned for p in stop_rec["live_at_ret"])
        mech = ("autorestart-stop-returns-during-inflight-restart" if sig_before else
                "autorestart-orphan-after-concurrent-restarts" if orphan else "autorestart-child-alive-after-stop")
        b.violation(mech, f"stop() returned with child {stop_rec['live_at_ret']} still alive" + (" (another thread's restart was waiting for it to die)" if sig_before else ""),
                    witness=wit, replay_spec=rs)
    if later_spawns:
        b.violation("autorestart-spawn-after-stop", f"a child was started after stop() had returned: {later_spawns[0]}", witness=wit, replay_spec=rs)
    elif live_later and not stop_rec.get("live_at_ret"):
        orphan = peak > 1 and any(p != last_spawned for p in live_later)
        b.violation("autorestart-orphan-after-concurrent-restarts" if orphan else "autorestart-child-alive-after-stop", f"child {live_later} alive 0.25 s after stop() returned", witness=wit, replay_spec=rs)
    helpers = [t for t in threading.enumerate() if t not in threads0 and type(t).__module__.startswith("watchdog.")]
    alive = monitors.wait_threads_gone(helpers, 3.0)
    if alive and not later_spawns:
        b.violation("autorestart-orphan-after-concurrent-restarts" if peak > 1 else "autorestart-helper-thread-alive", f"helper threads alive after stop(): {[monitors.thread_desc(t) for t in alive]}", witness=wit, replay_spec=rs)
    # restart accounting on quiescent scripts
    if cfg.get("quiescent") and (hold_plan is None or (hold_plan.get("linger") and not hold_plan.get("stop_while_held"))):
        spawns = sum(1 for r in table.log if r["what"] == "spawn")
        owed = 1 + cfg["expected_restarts"]
        b.count("restart_counts_judged")
        if spawns != owed:
            b.violation("autorestart-restart-count", f"{spawns} children were started, {owed} owed (1 + one per event/batch/self-exit)", witness=wit, replay_spec=rs)
    if reached or any(s[0] == "stop_async" for s in cfg["script"]) or events_sent >= 2:
        b.nontrivial(["auto", cfg, hold_plan])
    if len(b.samples) < 2:
        b.sample({"autorestart": {k: v for k, v in cfg.items()}, "table": [(r["what"], r["pid"], r["live"]) for r in table.log][:10]})


def _after_check(line):
    """is `line` of AutoRestartTrick._start_process located after the `if self._is_trick_stopping: return` test?"""
    import inspect

    from watchdog.tricks import AutoRestartTrick

    src, first = inspect.getsourcelines(AutoRestartTrick._start_process)
    for i, text in enumerate(src):
        if "_is_trick_stopping" in text:
            return isinstance(line, int) and line > first + i + 1
    return False


# ================================================================================================ shell command
def run_shell(b: Batch, inst, cfg):
    from watchdog.tricks import ShellCommandTrick

    table = inst.fresh(behaviours=[dict(x) for x in cfg["behaviours"]], default={"self_exit_after": 0.02})
    trick = ShellCommandTrick("echo x", wait_for_process=cfg["wait"], drop_during_process=cfg["drop"])
    b.case()
    b.count("shell_cases")
    rs = {"kind": "shell1", "cfg": cfg}
    second = []
    for i, gap in enumerate(cfg["gaps"]):
        time.sleep(gap)
        if cfg.get("two_sources") and cfg["wait"] and cfg["drop"]:
            # the same trick serves two observers: while one dispatching thread waits for the command, the other one delivers
            t2 = threading.Thread(target=lambda i=i: (time.sleep(0.004), trick.dispatch(mk_event(100 + i))), name="wdv-events2", daemon=True)
            t2.start()
            second.append(t2)
        st, v, th = monitors.call_with_watchdog(lambda i=i: trick.dispatch(mk_event(i)), 8.0, "shell-event")
        if st == "hung":
            b.inconc("shell trick dispatch hung")
            return
    for t2 in second:
        t2.join(8)
    time.sleep(0.3)
    for p in table.procs.values():
        p.poll()
    wit = dict(rs, table=[(r["what"], r["pid"], r["live"]) for r in table.log])
    audit_table(b, table, rs, wit, "shell")
    for t in list(trick._process_watchers) if hasattr(trick, "_process_watchers") else []:
        t.stop()
    if len(cfg["gaps"]) >= 2:
        b.nontrivial(["shell", cfg])


# ================================================================================================ plans
def deb_cfg(r):
    interval = r.choice([0.02, 0.03, 0.05])
    n = r.randint(1, 6)
    gaps = [0.0] + [r.choice([0.0, 0.0, interval / 3, interval / 2, interval * 1.6, interval * 2.5]) for _ in range(n - 1)]
    cfg = {"interval": interval, "gaps": gaps}
    if r.random() < 0.2:
        cfg["slow_cb"] = r.choice([0.01, 0.04])
    if r.random() < 0.15:
        cfg["stop_after"] = r.randrange(n)
    if r.random() < 0.3:
        cfg["equal_events"] = True
    if "stop_after" not in cfg and r.random() < 0.15:
        cfg["reenter"] = r.choice(["event", "stop"])
    return cfg


def auto_cfg(r):
    debounce = r.choice([0, 0, 0.03])
    script = []
    n_events = r.randint(0, 4)
    beh = []
    for _ in range(8):
        x = r.random()
        if x < 0.6:
            beh.append({"die_after_polls": r.choice([1, 1, 2, 4])})
        elif x < 0.8:
            beh.append({"ignore_sigint": True, "die_after_polls": 1})
        else:
            beh.append({"die_after_polls": 1, "self_exit_after": r.choice([0.02, 0.08])})
    for _ in range(n_events):
        script.append(("event",))
        if r.random() < 0.5:
            script.append(("wait", r.choice([0.0, 0.01, 0.05, 0.12])))
    if r.random() < 0.3:
        script.insert(r.randrange(len(script) + 1), ("stop_async",))
    cfg = {"debounce": debounce, "restart_on_exit": r.random() < 0.6, "behaviours": beh, "script": script, "kill_after": r.choice([1, 10])}
    if debounce == 0 and r.random() < 0.2 and not any(s[0] == "stop_async" for s in script):
        cfg["watcher_fail_at"] = r.randint(1, max(1, n_events))
    return cfg


def quiescent_cfg(r):
    """events far apart, children that die at once: the number of restarts is determined"""
    debounce = r.choice([0, 0.03])
    n = r.randint(1, 3)
    script = []
    for _ in range(n):
        script += [("event",), ("wait", 0.15)]
    return {"debounce": debounce, "restart_on_exit": False, "behaviours": [{"die_after_polls": 1}] * 8, "script": script, "quiescent": True, "expected_restarts": n}


def instr_tricks(seed):
    from watchdog.tricks import AutoRestartTrick
    from watchdog.utils.event_debouncer import EventDebouncer
    from watchdog.utils.process_watcher import ProcessWatcher

    ins = Instr(seed=seed)
    ins.watch(threading.Condition.wait)
    ins.watch(EventDebouncer.run, AutoRestartTrick._stop_process, AutoRestartTrick._restart_process, AutoRestartTrick._start_process, ProcessWatcher.run)
    return ins


def discover(inst, seed):
    ins = instr_tricks(seed)
    ins.discover = True
    b = Batch()
    r = rng_for(seed, "c18d")
    with ins:
        for _ in range(4):
            run_debouncer(b, deb_cfg(r))
        for _ in range(6):
            c = auto_cfg(r)
            c["script"] = [("event",), ("wait", 0.05), ("event",)]
            run_autorestart(b, inst, c)
        c = auto_cfg(r)
        c.update({"restart_on_exit": True, "behaviours": [{"die_after_polls": 1, "self_exit_after": 0.02}] * 8, "script": [("wait", 0.3)]})
        run_autorestart(b, inst, c)
    deb_pts, auto_pts = set(), set()
    for role, qn, line in ins.points:
        if role == "EventDebouncer" and qn in ("EventDebouncer.run", "Condition.wait"):
            deb_pts.add((role, qn, line))
        elif qn.startswith("AutoRestartTrick.") and role in ("wdv-events", "EventDebouncer", "ProcessWatcher"):
            auto_pts.add((role, qn, line))
    key = lambda t: (t[0], t[1], str(t[2]))  # noqa: E731
    return sorted(deb_pts, key=key), sorted(auto_pts, key=key)


def plan(tier, seed, jobs):
    specs = []
    if tier == "quick":
        for j in range(5):
            specs.append({"kind": "deb", "n": 60, "seed": seed, "j": j, "budget_s": 50})
        for j in range(5):
            specs.append({"kind": "auto", "n": 60, "seed": seed, "j": j, "budget_s": 50})
        specs.append({"kind": "shell", "n": 30, "seed": seed, "j": 0, "budget_s": 50})
        specs.append({"kind": "shell", "n": 30, "seed": seed, "j": 1, "budget_s": 50})
        for j in range(4):
            specs.append({"kind": "holds", "seed": seed, "j": j, "of": 4, "budget_s": 60, "reps": 1})
    else:
        for j in range(jobs):
            specs.append({"kind": "deb", "n": 1500, "seed": seed, "j": j, "budget_s": 800})
        for j in range(jobs):
            specs.append({"kind": "auto", "n": 1500, "seed": seed, "j": j, "budget_s": 800})
        for j in range(4):
            specs.append({"kind": "shell", "n": 600, "seed": seed, "j": j, "budget_s": 800})
        for j in range(jobs):
            specs.append({"kind": "holds", "seed": seed, "j": j, "of": jobs, "budget_s": 900, "reps": 12})
    return specs


def run_batch(spec):
    b = Batch(spec)
    inst = proctable.Installed()
    try:
        k = spec["kind"]
        r = rng_for(spec.get("seed", 0), "C18", k, spec.get("j", 0))
        if k == "deb":
            for n_ in range(spec["n"]):
                if b.expired():
                    break
                run_debouncer(b, deb_cfg(r))
                if n_ % 3 == 0:
                    run_stop_vs_start(b, r.choice(["debouncer", "watcher"]), r.choice(["stop_then_start", "race", "race_late"]), r)
        elif k == "auto":
            for n in range(spec["n"]):
                if b.expired():
                    break
                run_autorestart(b, inst, quiescent_cfg(r) if n % 6 == 0 else auto_cfg(r))
        elif k == "shell":
            for _ in range(spec["n"]):
                if b.expired():
                    break
                wait = r.random() < 0.5
                cfg = {"wait": wait, "drop": not wait or r.random() < 0.5, "two_sources": r.random() < 0.5,
                       "behaviours": [{"self_exit_after": r.choice([0.01, 0.03, 0.06, 0.12])} for _ in range(8)],
                       "gaps": [r.choice([0.0, 0.005, 0.02, 0.05, 0.11, 0.15]) for _ in range(r.randint(2, 6))]}
                if r.random() < 0.4:
                    # directed template: a short command, an event inside the process watcher's polling lag after it exited,
                    # then events while the second (long) command runs
                    cfg = {"wait": False, "drop": True,
                           "behaviours": [{"self_exit_after": r.choice([0.005, 0.01, 0.02])}] + [{"self_exit_after": r.choice([0.3, 0.5])} for _ in range(7)],
                           "gaps": [0.0, r.choice([0.03, 0.04, 0.06]), r.choice([0.07, 0.09, 0.12]), r.choice([0.03, 0.06])]}
                run_shell(b, inst, cfg)
        elif k == "holds":
            deb_pts, auto_pts = discover(inst, spec["seed"])
            for p in deb_pts + auto_pts:
                b.add("hold_points_planned", f"{p[0]}:{p[1]}:{p[2]}")
            if not deb_pts or not auto_pts:
                b.inconc(f"line discovery found {len(deb_pts)} debouncer and {len(auto_pts)} auto-restart points")
            ins = instr_tricks(spec["seed"] + spec["j"])
            with ins:
                for rep in range(spec.get("reps", 1)):
                    allp = [("deb", p) for p in deb_pts] + [("auto", p) for p in auto_pts]
                    for i, (what, pt) in enumerate(allp):
                        if i % spec["of"] != spec["j"] or b.expired():
                            continue
                        if what == "deb" and pt[1] == "Condition.wait":
                            # the debouncer is parked INSIDE Condition.wait on its way out of a timed wait that has just timed
                            # out (2nd pass of that line); an event arrives exactly then; the quiet period must start again
                            cfg = {"interval": 0.6, "gaps": [0.0, 0.65]}
                            hp = {"qualname": pt[1], "line": pt[2], "nth": 2, "stop_while_held": False}
                            run_debouncer(b, cfg, ins, hp)
                            continue
                        if what == "deb":
                            for variant in range(4):
                                cfg = deb_cfg(r)
                                cfg.pop("stop_after", None)
                                hp = {"qualname": pt[1], "line": pt[2], "nth": r.choice([1, 1, 2]), "stop_while_held": variant >= 2}
                                if variant == 1:
                                    cfg["gaps"] = [0.0]
                                if variant == 3:
                                    # start() immediately followed by stop(), no event at all: stop() lands while the thread stands at
                                    # this line on its way to its very first wait - the thread must still exit
                                    cfg["gaps"] = []
                                    cfg.pop("reenter", None)
                                    hp["nth"] = 1
                                    b.count("debouncer_stop_before_first_wait_cases")
                                run_debouncer(b, cfg, ins, hp)
                        else:
                            for variant in range(3):
                                cfg = auto_cfg(r)
                                cfg["script"] = [s for s in cfg["script"] if s[0] != "stop_async"] or [("event",)]
                                if not any(s[0] == "event" for s in cfg["script"]):
                                    cfg["script"].append(("event",))
                                if pt[0] == "ProcessWatcher":
                                    cfg.update({"restart_on_exit": True, "behaviours": [{"die_after_polls": r.choice([1, 3]), "self_exit_after": 0.02}] * 8})
                                    cfg["script"] = [("wait", 0.25)] + cfg["script"][:1]
                                elif pt[0] == "EventDebouncer":
                                    cfg["debounce"] = 0.03
                                    cfg["script"].append(("wait", 0.1))
                                else:
                                    cfg["debounce"] = 0
                                cfg["behaviours"] = [dict(x, die_after_polls=r.choice([2, 4])) for x in cfg["behaviours"]]
                                hp = {"role": pt[0], "qualname": pt[1], "line": pt[2], "nth": r.choice([1, 1, 2]), "stop_while_held": variant != 0}
                                if variant == 0 and pt[0] == "wdv-events":
                                    # the dispatcher is parked inside a restart for longer than the process watcher's polling period;
                                    # one event must still cost exactly one restart
                                    cfg = {"debounce": 0, "restart_on_exit": True, "behaviours": [{"die_after_polls": r.choice([1, 2])}] * 8,
                                           "script": [("event",), ("wait", 0.3)], "quiescent": True, "expected_restarts": 1, "kill_after": 10}
                                    hp["linger"] = 0.25
                                    hp["nth"] = 1
                                if variant == 0 and pt[0] == "ProcessWatcher":
                                    # a long-lived child, one event, quiescent: exactly one restart is owed while the watcher's thread is the
                                    # hold target.  (Aim: the watcher standing before poll() while an event-triggered restart kills the child;
                                    # ProcessWatcher.run's own lines are not hold points yet, so that window is only met by chance.)
                                    cfg = {"debounce": 0, "restart_on_exit": True, "behaviours": [{"die_after_polls": r.choice([1, 2])}] * 8,
                                           "script": [("event",), ("wait", 0.3)], "quiescent": True, "expected_restarts": 1, "kill_after": 10}
                                    hp["linger"] = 0.25
                                    hp["nth"] = 1
                                    b.count("watcher_held_across_an_event_restart_cases")
                                run_autorestart(b, inst, cfg, ins, hp)
        elif k == "svs1":
            for _ in range(50):
                run_stop_vs_start(b, spec["what"], spec["mode"], r)
        elif k == "deb1":
            if spec.get("hold"):
                ins = instr_tricks(1)
                with ins:
                    for _ in range(5):
                        run_debouncer(b, spec["cfg"], ins, spec["hold"])
            else:
                for _ in range(5):
                    run_debouncer(b, spec["cfg"])
        elif k == "auto1":
            cfg = spec["cfg"]
            cfg["script"] = [tuple(s) for s in cfg["script"]]
            if spec.get("hold"):
                ins = instr_tricks(1)
                with ins:
                    for _ in range(5):
                        run_autorestart(b, inst, cfg, ins, spec["hold"])
            else:
                for _ in range(5):
                    run_autorestart(b, inst, cfg)
        elif k == "shell1":
            run_shell(b, inst, spec["cfg"])
    finally:
        inst.restore()
    return b.to_dict()
