"""C15 - handlers call exactly the callbacks the event type and match rules dictate.

Deciding monitor: a recording subclass (every on_* overridden) + an independent reference evaluator written from the
statement on top of pathlib / re, compared on the full product of a small alphabet; plus the same comparison while two
threads dispatch through one shared handler instance (a handler scheduled on two observers) under line noise.
"""

from __future__ import annotations

import itertools
import os
import re
import sys
import threading
from pathlib import PurePosixPath, PureWindowsPath

from wdverif.instrument import Instr
from wdverif.monitors import Batch, rng_for

ID = "C15"
LEVEL = "exploration"
RULE = (
    "case = (event class, src, dest, include list, exclude list, case_sensitive, ignore_directories) for the pattern and "
    "the regex handler, (event class, paths) for the base handler, (paths, include, exclude, case) for filter_paths/"
    "match_any_paths; the product over the alphabets below is enumerated (quick: strided sample).  Non-trivial iff some "
    "path matches an include and some path matches an exclude, or a non-default flag is set; distinct by the case tuple."
)
ASSUMPTIONS = [
    "reference matcher: PurePosixPath.match (case-sensitive) / PureWindowsPath.match with lower-cased patterns (insensitive), "
    "re.match for regexes; only non-empty event paths are examined (an absent dest_path is the empty string)",
    "an ignored directory event is decided before any pattern is examined (no ValueError demanded there)",
]
MINIMUMS = {"quick": {"dispatch_verdicts": 50000, "filter_verdicts": 1000, "base_verdicts": 100, "concurrent_verdicts": 2000},
            "thorough": {"dispatch_verdicts": 150000}}
WALL_CAP = {"quick": 150, "thorough": 2400}

SRCS = ["/a/x.py", "/a/X.PY", "/a/b/y.txt", "/a", "x.py", b"/a/x.py", "/A/b/x.py", "/a/conf.py/", "/a/b/y.txt/."]  # the last two: paths not in normal form
DESTS = ["", "/a/z.py", "/a/b/Z.TXT", b"/q/w.md", "/a"]
PATS = [None, [], ["*"], ["*.py"], ["*.PY"], ["/a/*"], ["**"], ["*.txt"], ["*.py", "*.txt"], ["/a/b/*", "*.md"], ["x.py"], ["*/b/*"]]
REGS = [None, [], [r".*"], [r".*\.py$"], [r".*\.PY$"], [r"/a/[^/]*$"], [r""], [r".*\.txt$"], [r".*\.py$", r".*\.md$"], [r"^$"], r".*\.py$", [r"/a/b/"],
        # groups and numbered back-references in a regex that is not the first of its list
        [r"(.*)\.md$", r"(/)a\1x\.py$"], [r"(/q)/w\.(md)$", r"(?i)(/)a\1b\1y\.(t)x\2$"]]


def event_classes():
    from watchdog import events as ev

    return [ev.FileDeletedEvent, ev.FileModifiedEvent, ev.FileCreatedEvent, ev.FileMovedEvent, ev.FileClosedEvent,
            ev.FileClosedNoWriteEvent, ev.FileOpenedEvent, ev.DirDeletedEvent, ev.DirModifiedEvent, ev.DirCreatedEvent,
            ev.DirMovedEvent, ev.FileSystemMovedEvent]


ALL_CB = ["on_any_event", "on_moved", "on_created", "on_deleted", "on_modified", "on_closed", "on_closed_no_write", "on_opened"]


def recording(base):
    tl = threading.local()

    class Rec(base):
        def _log(self):
            if not hasattr(tl, "log"):
                tl.log = []
            return tl.log

        def take(self):
            out = list(self._log())
            self._log().clear()
            return out

    for name in ALL_CB:
        def mk(name):
            def cb(self, event):
                self._log().append((name, id(event)))
            return cb
        setattr(Rec, name, mk(name))
    return Rec


# ------------------------------------------------------------------------------------------------ reference
def ref_match_path(p: str, incl, excl, case_sensitive) -> bool:
    if case_sensitive:
        path = PurePosixPath(p)
        inc, exc = set(incl), set(excl)
    else:
        path = PureWindowsPath(p)
        inc, exc = {x.lower() for x in incl}, {x.lower() for x in excl}
    return any(path.match(x) for x in inc) and not any(path.match(x) for x in exc)


def ref_conflict(incl, excl, case_sensitive) -> bool:
    if case_sensitive:
        return bool(set(incl) & set(excl))
    return bool({x.lower() for x in incl} & {x.lower() for x in excl})


def ref_pattern(event, patterns, ignore_patterns, case_sensitive, ignore_directories):
    """returns 'dispatch' | 'skip' | 'ValueError'"""
    if ignore_directories and event.is_directory:
        return "skip"
    paths = [os.fsdecode(p) for p in (event.src_path, event.dest_path) if p]
    incl = ["*"] if patterns is None else patterns
    excl = [] if ignore_patterns is None else ignore_patterns
    if paths and ref_conflict(incl, excl, case_sensitive):
        return "ValueError"
    return "dispatch" if any(ref_match_path(p, incl, excl, case_sensitive) for p in paths) else "skip"


def ref_regex(event, regexes, ignore_regexes, case_sensitive, ignore_directories):
    if ignore_directories and event.is_directory:
        return "skip"
    paths = [os.fsdecode(p) for p in (event.src_path, event.dest_path) if p]
    if regexes is None:
        regexes = [r".*"]
    elif isinstance(regexes, str):
        regexes = [regexes]
    if ignore_regexes is None:
        ignore_regexes = []
    elif isinstance(ignore_regexes, str):
        ignore_regexes = [ignore_regexes]
    fl = 0 if case_sensitive else re.IGNORECASE
    if any(re.match(r, p, fl) for r in ignore_regexes for p in paths):
        return "skip"
    return "dispatch" if any(re.match(r, p, fl) for r in regexes for p in paths) else "skip"


def expected_calls(event):
    return ["on_any_event", f"on_{event.event_type}"]


def judge_dispatch(b: Batch, handler, event, want, what, case, counter="dispatch_verdicts"):
    try:
        handler.dispatch(event)
        got_exc = None
    except ValueError:
        got_exc = "ValueError"
    except Exception as e:  # noqa: BLE001
        got_exc = type(e).__name__
    calls = [n for n, _ in handler.take()]
    b.count(counter)
    if want == "ValueError":
        ok = got_exc == "ValueError" and not calls
    elif want == "dispatch":
        ok = got_exc is None and calls == expected_calls(event)
    else:
        ok = got_exc is None and calls == []
    if not ok:
        b.violation(f"{what}-mismatch", f"{what}: reference says {want}, observed calls={calls} exc={got_exc} for {case!r}",
                    witness={"case": repr(case)}, replay_spec=None)
    return ok


def mk_event(cls, src, dest):
    from watchdog.events import FileSystemMovedEvent

    if issubclass(cls, FileSystemMovedEvent):
        return cls(src, dest)
    return cls(src)


def nontrivial_pattern(event, incl, excl, cs, ign):
    paths = [os.fsdecode(p) for p in (event.src_path, event.dest_path) if p]
    i = ["*"] if incl is None else incl
    e = [] if excl is None else excl
    try:
        mi = any(ref_match_path(p, i, [], cs) for p in paths)
        me = any(ref_match_path(p, ["*"], [], cs) and not ref_match_path(p, ["*"], e, cs) for p in paths) if e else False
    except Exception:  # noqa: BLE001
        return False
    return (mi and me) or ign or cs


def run_pattern_product(b: Batch, stride, offset, regex=False):
    from watchdog.events import PatternMatchingEventHandler, RegexMatchingEventHandler

    base = RegexMatchingEventHandler if regex else PatternMatchingEventHandler
    Rec = recording(base)
    lists = REGS if regex else PATS
    classes = event_classes()
    idx = -1
    for incl, excl, cs, ign in itertools.product(lists, lists, (True, False), (True, False)):
        if isinstance(excl, str):
            continue  # documented type is a list; a bare string is only accepted for `regexes`
        try:
            h = Rec(regexes=incl, ignore_regexes=excl, case_sensitive=cs, ignore_directories=ign) if regex else \
                Rec(patterns=incl, ignore_patterns=excl, case_sensitive=cs, ignore_directories=ign)
        except Exception as e:  # noqa: BLE001
            b.violation("handler-ctor-raised", f"{base.__name__}({incl!r},{excl!r}) raised {e!r}", witness={"incl": incl, "excl": excl})
            continue
        for cls, src in itertools.product(classes, SRCS):
            from watchdog.events import FileSystemMovedEvent

            dests = DESTS if issubclass(cls, FileSystemMovedEvent) else [""]
            for dest in dests:
                idx += 1
                if idx % stride != offset:
                    continue
                ev = mk_event(cls, src, dest)
                want = (ref_regex if regex else ref_pattern)(ev, incl, excl, cs, ign)
                case = (cls.__name__, src, dest, incl, excl, cs, ign)
                b.case()
                judge_dispatch(b, h, ev, want, "regex" if regex else "pattern", case)
                if want == "dispatch":
                    b.count("verdict_dispatch")
                elif want == "skip":
                    b.count("verdict_skip")
                else:
                    b.count("verdict_valueerror")
                if nontrivial_pattern(ev, incl if not regex else None, excl if not regex else None, cs, ign):
                    b.nontrivial(repr(("r" if regex else "p",) + case))
                if idx % 20011 == 0:
                    b.sample({"handler": base.__name__, "event": cls.__name__, "src": repr(src), "dest": repr(dest), "include": incl,
                              "exclude": excl, "case_sensitive": cs, "ignore_directories": ign, "reference": want})


def run_base(b: Batch):
    from watchdog import events as ev

    Rec = recording(ev.FileSystemEventHandler)
    h = Rec()
    for cls in event_classes():
        for src in SRCS:
            for dest in DESTS:
                e = mk_event(cls, src, dest)
                b.case()
                judge_dispatch(b, h, e, "dispatch", "base", (cls.__name__, src, dest), counter="base_verdicts")
                b.nontrivial(repr(("base", cls.__name__, src, dest)))
    # LoggingEventHandler keeps the same contract (it only adds logging)
    import logging

    lg = logging.getLogger("wdv-null")
    lg.addHandler(logging.NullHandler())
    lg.propagate = False
    seen = []

    class L(ev.LoggingEventHandler):
        def on_any_event(self, event):
            seen.append("on_any_event")

    lh = L(logger=lg)
    for cls in event_classes():
        e = mk_event(cls, "/a/x.py", "/a/z.py")
        seen.clear()
        lh.dispatch(e)
        b.count("base_verdicts")
        if seen != ["on_any_event"]:
            b.violation("base-mismatch", f"LoggingEventHandler: on_any_event calls {seen} for {cls.__name__}", witness={"cls": cls.__name__})


def run_rebind(b: Batch):
    """The callback named by the event's type is whatever handler.on_<type> is when the event is dispatched: callbacks
    re-bound on the instance, on the class, or restored after earlier dispatches are followed (no stale cache)."""
    from watchdog import events as ev

    for base in (ev.FileSystemEventHandler, ev.PatternMatchingEventHandler, ev.RegexMatchingEventHandler):
        for order in range(3):
            Rec = recording(base)
            h = Rec()
            classes = event_classes()
            if order == 1:
                classes = classes[::-1]
            for cls in classes:
                e = mk_event(cls, "/a/x.py", "/a/z.py")
                judge_dispatch(b, h, e, "dispatch", "base", ("rebind-warm", base.__name__, cls.__name__), counter="rebind_verdicts")
            for cls in classes:
                name = f"on_{cls.event_type}"
                got = []
                # 1. instance attribute
                setattr(h, name, lambda event, got=got: got.append(("inst", event)))
                e = mk_event(cls, "/a/x.py", "/a/z.py")
                h.dispatch(e)
                calls = [n for n, _ in h.take()]
                b.count("rebind_verdicts")
                if calls != ["on_any_event"] or got != [("inst", e)]:
                    b.violation("base-mismatch", f"{base.__name__}: {name} re-bound on the instance after earlier dispatches; "
                                f"dispatch called {calls} and the new callback {len(got)} time(s) for {cls.__name__}",
                                witness={"base": base.__name__, "cls": cls.__name__, "step": "instance"})
                delattr(h, name)
                # 2. class attribute replaced
                got2 = []
                old = Rec.__dict__[name]
                setattr(Rec, name, lambda self, event, got2=got2: got2.append(event))
                e = mk_event(cls, "/a/x.py", "/a/z.py")
                h.dispatch(e)
                calls = [n for n, _ in h.take()]
                b.count("rebind_verdicts")
                if calls != ["on_any_event"] or got2 != [e]:
                    b.violation("base-mismatch", f"{base.__name__}: {name} replaced on the class after earlier dispatches; "
                                f"dispatch called {calls} and the new callback {len(got2)} time(s) for {cls.__name__}",
                                witness={"base": base.__name__, "cls": cls.__name__, "step": "class"})
                setattr(Rec, name, old)
                # 3. restored: the original is called again
                e = mk_event(cls, "/a/x.py", "/a/z.py")
                judge_dispatch(b, h, e, "dispatch", "base", ("rebind-restored", base.__name__, cls.__name__), counter="rebind_verdicts")
            b.case()
            b.nontrivial(repr(("rebind", base.__name__, order)))


def run_observer_twins(b: Batch):
    """Two identically configured handler instances on one watch of one observer: both are called (handlers are kept in a
    set: they must stay distinct objects), and removing one leaves the other."""
    from watchdog import events as ev
    from watchdog.observers.api import BaseObserver

    from wdverif import apirig

    for base in (ev.FileSystemEventHandler, ev.PatternMatchingEventHandler, ev.RegexMatchingEventHandler, ev.LoggingEventHandler):
        log = []

        class Rec(base):
            def on_any_event(self, event):
                log.append((self.tag, "on_any_event", id(event)))

            def on_modified(self, event):
                log.append((self.tag, "on_modified", id(event)))

        hs = [Rec(), Rec(), Rec()]
        for i, h in enumerate(hs):
            h.tag = i
        obs = BaseObserver(apirig.make_scripted_emitter(apirig.FaultPlan(()), []), timeout=0.02)
        watch = None
        for h in hs:
            watch = obs.schedule(h, "/twins", recursive=False)
        obs.start()
        try:
            e1 = ev.FileModifiedEvent("/twins/a.py")
            obs.event_queue.put((e1, watch))
            ok = apirig.drain(obs, 10)
            obs.remove_handler_for_watch(hs[1], watch)
            e2 = ev.FileModifiedEvent("/twins/b.py")
            obs.event_queue.put((e2, watch))
            ok = apirig.drain(obs, 10) and ok
        finally:
            obs.stop()
            obs.join(10)
        b.case()
        b.count("observer_twin_cases")
        if not ok:
            b.inconc("C15 twins: dispatcher did not drain")
            continue
        got1 = sorted((t, n) for t, n, i in log if i == id(e1))
        got2 = sorted((t, n) for t, n, i in log if i == id(e2))
        want1 = sorted((t, n) for t in (0, 1, 2) for n in ("on_any_event", "on_modified"))
        want2 = sorted((t, n) for t in (0, 2) for n in ("on_any_event", "on_modified"))
        if got1 != want1 or got2 != want2:
            b.violation("base-mismatch", f"{base.__name__}: three identically configured handlers on one watch: first event reached {got1}, after removing one of them the second reached {got2}",
                        witness={"base": base.__name__})
        b.nontrivial(repr(("twins", base.__name__)))


def run_filters(b: Batch, stride, offset):
    from watchdog.utils.patterns import filter_paths, match_any_paths

    strs = [p for p in SRCS + DESTS if isinstance(p, str) and p]
    path_lists = [[], strs[:1], strs[:3], strs, list(reversed(strs)), [strs[1], strs[1], strs[0]]]
    idx = -1
    for paths, incl, excl, cs in itertools.product(path_lists, PATS, PATS, (True, False)):
        idx += 1
        if idx % stride != offset:
            continue
        i = ["*"] if incl is None else incl
        e = [] if excl is None else excl
        b.case()
        b.count("filter_verdicts")
        conflict = bool(paths) and ref_conflict(i, e, cs)
        try:
            got = list(filter_paths(paths, included_patterns=incl, excluded_patterns=excl, case_sensitive=cs))
            exc = None
        except ValueError:
            got, exc = None, "ValueError"
        try:
            anyg = match_any_paths(paths, included_patterns=incl, excluded_patterns=excl, case_sensitive=cs)
            exc2 = None
        except ValueError:
            anyg, exc2 = None, "ValueError"
        case = (paths, incl, excl, cs)
        if conflict:
            if exc != "ValueError" or exc2 != "ValueError":
                b.violation("filter-conflict-not-rejected", f"overlapping include/exclude accepted: {case!r}", witness={"case": repr(case)})
            continue
        want = [p for p in paths if ref_match_path(p, i, e, cs)]
        if exc or exc2:
            b.violation("filter-raised", f"unexpected ValueError for {case!r}", witness={"case": repr(case)})
        elif got != want:
            b.violation("filter-mismatch", f"filter_paths gave {got!r}, reference {want!r} for {case!r}", witness={"case": repr(case)})
        elif anyg != bool(want):
            b.violation("filter-mismatch", f"match_any_paths gave {anyg!r}, reference {bool(want)!r} for {case!r}", witness={"case": repr(case)})
        if want and len(want) < len(paths):
            b.nontrivial(repr(("f",) + case))


def run_concurrent(b: Batch, seed, j, n):
    """Two threads dispatch through ONE handler instance (a handler scheduled on two observers)."""
    from watchdog.events import PatternMatchingEventHandler, RegexMatchingEventHandler
    from watchdog.utils import patterns as pm

    r = rng_for(seed, "c15c", j)
    ins = Instr(seed=seed + j)
    import types

    # every function the patterns module defines (helpers a refactor may add are preempted too)
    own = [f for f in vars(pm).values() if isinstance(f, types.FunctionType) and f.__module__ == pm.__name__]
    ins.watch(PatternMatchingEventHandler.dispatch, RegexMatchingEventHandler.dispatch, *own)
    ins.set_noise(0.3, 0.0002)
    sys.setswitchinterval(1e-5)
    classes = event_classes()
    with ins:
        for it in range(n):
            if b.expired():
                break
            regex = r.random() < 0.4
            lists = [x for x in (REGS if regex else PATS) if not isinstance(x, str)]
            incl, excl = r.choice(lists), r.choice(lists)
            cs, ign = r.random() < 0.5, r.random() < 0.3
            base = RegexMatchingEventHandler if regex else PatternMatchingEventHandler
            Rec = recording(base)
            h = Rec(regexes=incl, ignore_regexes=excl, case_sensitive=cs, ignore_directories=ign) if regex else \
                Rec(patterns=incl, ignore_patterns=excl, case_sensitive=cs, ignore_directories=ign)
            cfgs = [(h, incl, excl, cs, ign)] * 2
            if it % 2 == 1:
                # two handlers with different rules, one per thread (two watches of one process): no state may leak between them
                incl2, excl2 = r.choice(lists), r.choice(lists)
                cs2 = cs if r.random() < 0.7 else not cs
                h2 = Rec(regexes=incl2, ignore_regexes=excl2, case_sensitive=cs2, ignore_directories=ign) if regex else \
                    Rec(patterns=incl2, ignore_patterns=excl2, case_sensitive=cs2, ignore_directories=ign)
                cfgs = [cfgs[0], (h2, incl2, excl2, cs2, ign)]
                b.count("concurrent_two_handler_trials")
            events = [[mk_event(r.choice(classes), r.choice(SRCS), r.choice(DESTS)) for _ in range(25)] for _ in range(2)]
            bar = threading.Barrier(2)
            sub = [Batch(), Batch()]

            def work(k):
                hk, incl_k, excl_k, cs_k, ign_k = cfgs[k]
                bar.wait()
                for e in events[k]:
                    want = (ref_regex if regex else ref_pattern)(e, incl_k, excl_k, cs_k, ign_k)
                    case = (type(e).__name__, e.src_path, e.dest_path, incl_k, excl_k, cs_k, ign_k, "concurrent")
                    judge_dispatch(sub[k], hk, e, want, "regex" if regex else "pattern", case, counter="concurrent_verdicts")

            ts = [threading.Thread(target=work, args=(k,), name=f"wdv-disp{k}", daemon=True) for k in range(2)]
            for t in ts:
                t.start()
            for t in ts:
                t.join(30)
            b.case()
            for s in sub:
                b.counters["concurrent_verdicts"] = b.counters.get("concurrent_verdicts", 0) + s.counters.get("concurrent_verdicts", 0)
                for v in s.violations:
                    b.violation(v["mechanism"].replace("-mismatch", "-concurrent-mismatch"), v["summary"], witness=v["witness"])
            b.nontrivial(repr(("conc", seed, j, it)))


def plan(tier, seed, jobs):
    specs = [{"kind": "base"}]
    if tier == "quick":
        k = 6
        for off in range(k):
            specs.append({"kind": "pattern", "stride": k * 2, "offset": (seed + off * 2) % (k * 2)})
            specs.append({"kind": "regex", "stride": k * 2, "offset": (seed + off * 2 + 1) % (k * 2)})
        specs.append({"kind": "filters", "stride": 1, "offset": 0})
        for j in range(8):
            specs.append({"kind": "concurrent", "n": 25, "seed": seed, "j": j, "budget_s": 40})
    else:
        k = 24
        for off in range(k):
            specs.append({"kind": "pattern", "stride": k, "offset": off})
            specs.append({"kind": "regex", "stride": k, "offset": off})
        specs.append({"kind": "filters", "stride": 1, "offset": 0})
        for j in range(32):
            specs.append({"kind": "concurrent", "n": 400, "seed": seed, "j": j, "budget_s": 300})
    return specs


EXHAUSTIVE = {"thorough": True}


def run_batch(spec):
    b = Batch(spec)
    k = spec["kind"]
    if k == "base":
        run_base(b)
        run_rebind(b)
        run_observer_twins(b)
    elif k == "pattern":
        run_pattern_product(b, spec["stride"], spec["offset"], regex=False)
    elif k == "regex":
        run_pattern_product(b, spec["stride"], spec["offset"], regex=True)
    elif k == "filters":
        run_filters(b, spec["stride"], spec["offset"])
    elif k == "concurrent":
        run_concurrent(b, spec["seed"], spec["j"], spec["n"])
    return b.to_dict()
