"""Global monitors (always on in a worker) and the batch-result accumulator."""

from __future__ import annotations

import hashlib
import json
import os
import random
import sys
import threading
import time
import traceback

# ---------------------------------------------------------------------------------------------
# excepthook ledger: any thread dying with an uncaught exception is recorded
# ---------------------------------------------------------------------------------------------
_exc_lock = threading.Lock()
_exc_records: list[dict] = []


def _hook(args) -> None:
    if args.exc_type is SystemExit:
        return
    tb = "".join(traceback.format_exception(args.exc_type, args.exc_value, args.exc_traceback))
    th = args.thread
    rec = {
        "thread": getattr(th, "name", "?"),
        "thread_class": type(th).__name__ if th is not None else "?",
        "exc_type": args.exc_type.__name__,
        "exc": str(args.exc_value)[:300],
        "traceback": tb[-3000:],
        "library": "/watchdog/" in tb,
        "t": time.monotonic(),
    }
    with _exc_lock:
        _exc_records.append(rec)


def install_global() -> None:
    threading.excepthook = _hook


def exc_mark() -> int:
    with _exc_lock:
        return len(_exc_records)


def exc_since(mark: int) -> list[dict]:
    with _exc_lock:
        return list(_exc_records[mark:])


# ---------------------------------------------------------------------------------------------
# thread / descriptor ledgers
# ---------------------------------------------------------------------------------------------
def live_threads() -> set:
    return set(threading.enumerate())


def fd_set() -> set[int]:
    try:
        return {int(x) for x in os.listdir("/proc/self/fd")}
    except OSError:
        return set()


def fd_describe(fds) -> dict:
    out = {}
    for fd in fds:
        try:
            out[fd] = os.readlink(f"/proc/self/fd/{fd}")
        except OSError:
            out[fd] = "?"
    return out


def thread_desc(t: threading.Thread) -> str:
    return f"{type(t).__module__}.{type(t).__name__}:{t.name}"


def wait_threads_gone(threads, grace: float = 5.0) -> list:
    """Join the given threads with a total grace period; returns those still alive."""
    end = time.monotonic() + grace
    for t in list(threads):
        rem = end - time.monotonic()
        if rem > 0 and t.is_alive() and t is not threading.current_thread():
            t.join(rem)
    return [t for t in threads if t.is_alive()]


_UNTIMED_BLOCKERS = (
    ("threading.py", "wait"),
    ("threading.py", "join"),
    ("threading.py", "_wait_for_tstate_lock"),
    ("threading.py", "acquire"),
    ("queue.py", "get"),
    ("queue.py", "put"),
)


def stack_of(thread: threading.Thread, limit: int = 14) -> list[str]:
    fr = sys._current_frames().get(thread.ident)
    if fr is None:
        return []
    return [f"{os.path.basename(f.filename)}:{f.lineno}:{f.name}" for f in traceback.extract_stack(fr)[-limit:]]


def stack_fingerprint(threads) -> tuple:
    frames = sys._current_frames()
    out = []
    for t in threads:
        fr = frames.get(t.ident)
        if fr is None:
            out.append((t.name, None))
            continue
        st = traceback.extract_stack(fr)[-8:]
        out.append((t.name, tuple((os.path.basename(f.filename), f.lineno, f.name) for f in st)))
    return tuple(out)


def classify_hang(threads, interval: float = 1.0, samples: int = 3) -> tuple[str, dict]:
    """Sample the stacks of `threads` several times.  'deadlock' iff identical in all samples
    (none made progress); else 'slow'.  Returns (verdict, stacks of last sample)."""
    fps = []
    for _ in range(samples):
        fps.append(stack_fingerprint(threads))
        time.sleep(interval)
    stacks = {t.name: stack_of(t) for t in threads if t.is_alive()}
    same = all(fp == fps[0] for fp in fps[1:])
    return ("deadlock" if same else "slow"), stacks


def call_with_watchdog(fn, timeout: float, name: str = "call"):
    """Run fn() in a helper thread.  Returns (status, value, thread): status in ok|raised|hung."""
    box: dict = {}

    def run():
        try:
            box["v"] = fn()
            box["s"] = "ok"
        except BaseException as e:  # noqa: BLE001
            box["v"] = e
            box["s"] = "raised"

    t = threading.Thread(target=run, name=f"wdv-{name}", daemon=True)
    t.start()
    t.join(timeout)
    if t.is_alive():
        return "hung", None, t
    return box["s"], box["v"], t


# ---------------------------------------------------------------------------------------------
# batch accumulator
# ---------------------------------------------------------------------------------------------
def canon_hash(obj) -> str:
    return hashlib.sha1(json.dumps(obj, sort_keys=True, default=repr).encode()).hexdigest()[:14]


class Batch:
    def __init__(self, spec: dict | None = None) -> None:
        self.spec = spec or {}
        self.evaluations = 0
        self.counters: dict[str, int] = {}
        self.sets: dict[str, set] = {}
        self._nontrivial: set[str] = set()
        self.violations: list[dict] = []
        self.samples: list = []
        self.inconclusive: list[str] = []
        self.t0 = time.monotonic()
        self.budget = float(self.spec.get("budget_s", 1e9))
        self._lock = threading.Lock()

    def time_left(self) -> float:
        return self.budget - (time.monotonic() - self.t0)

    def expired(self) -> bool:
        return self.time_left() <= 0

    def count(self, name: str, n: int = 1) -> None:
        with self._lock:
            self.counters[name] = self.counters.get(name, 0) + n

    def add(self, setname: str, item) -> None:
        with self._lock:
            self.sets.setdefault(setname, set()).add(item)

    def case(self, n: int = 1) -> None:
        self.evaluations += n

    def nontrivial(self, canonical) -> None:
        self._nontrivial.add(canonical if isinstance(canonical, str) and len(canonical) <= 16 else canon_hash(canonical))

    def sample(self, x, cap: int = 3) -> None:
        if len(self.samples) < cap:
            self.samples.append(x)

    def violation(self, mechanism: str, summary: str, witness=None, replay_spec=None, cap: int = 25) -> None:
        self.count("violations_raw")
        n = sum(1 for v in self.violations if v["mechanism"] == mechanism)
        if n >= cap:
            return
        self.violations.append(
            {"mechanism": mechanism, "summary": summary, "witness": witness, "replay_spec": replay_spec}
        )

    def inconc(self, reason: str) -> None:
        if len(self.inconclusive) < 10:
            self.inconclusive.append(reason)
        self.count("inconclusive_cases")

    def to_dict(self) -> dict:
        return {
            "evaluations": self.evaluations,
            "counters": self.counters,
            "sets": {k: sorted(v, key=repr)[:5000] for k, v in self.sets.items()},
            "nontrivial": sorted(self._nontrivial),
            "violations": self.violations,
            "samples": self.samples,
            "inconclusive": self.inconclusive,
        }


def rng_for(seed: int, *parts) -> random.Random:
    h = hashlib.sha256(repr((seed, parts)).encode()).digest()
    return random.Random(int.from_bytes(h[:8], "big"))
