"""History driver shared by C01 / C02 / C03 / C07 / C14(end-to-end): runs one generated operation history against a
real observer, with pacing drains, and evaluates the replay oracle (C01), the probe oracle (C02), the justification
oracle (C03, see fsjustify) and the survival oracle (C07)."""

from __future__ import annotations

import os
import random
import time

from wdverif import fsrig, monitors
from wdverif.fsrig import DrainFailed, OpGen, Pacer, Session, Universe, op_footprint


def restrict(tree, recursive):
    return dict(tree) if recursive else {p: k for p, k in tree.items() if "/" not in p}


def set_read_size(n):
    from watchdog.observers.inotify_c import DEFAULT_EVENT_BUFFER_SIZE, Inotify

    Inotify.read_events.__kwdefaults__["event_buffer_size"] = n or DEFAULT_EVENT_BUFFER_SIZE


class History:
    def __init__(self, cfg):
        self.cfg = cfg
        self.r = random.Random(cfg["seed"])
        self.viol: list[tuple[str, str, str, dict]] = []  # (prop, mechanism, message, detail)
        self.counts: dict[str, int] = {}
        self.ops: list = []  # executed ops and drains in order
        self.inconclusive = None
        self.events_seen = 0

    def c(self, k, n=1):
        self.counts[k] = self.counts.get(k, 0) + n

    def v(self, prop, mech, msg, **detail):
        self.viol.append((prop, mech, msg, detail))

    # ------------------------------------------------------------------------------------------------
    def run(self, instr=None, justify=None):
        cfg = self.cfg
        r = self.r
        u = Universe(r, names=cfg.get("names"), max_depth=cfg.get("max_depth", 3), root_name=cfg.get("root_name", "root"))
        self.u = u
        sess = None
        try:
            if cfg.get("prefix_tree"):
                # names that repeat components of the root path
                for p in cfg["prefix_tree"]:
                    q = u.root_name + "/" + p
                    if q not in u.m.t:
                        os.makedirs(u.abs(q), exist_ok=True)
                        parts = q.split("/")
                        for i in range(2, len(parts) + 1):
                            u.m.t["/".join(parts[:i])] = "d"
            u.populate(cfg.get("n_root", 4), cfg.get("n_out", 4))
            self._bg_fd = None
            if cfg.get("bg_writer"):
                self._bg_fd = os.open(u.abs(u.root_name + "/" + fsrig.SENT + "-0bg"), os.O_CREAT | os.O_WRONLY, 0o644)
            set_read_size(cfg.get("read_size"))
            import errno as _errno
            import time as _time

            for attempt in range(6):
                try:
                    sess = Session(u, recursive=cfg.get("recursive", True), full=cfg.get("full", False), as_bytes=cfg.get("bytes", False),
                                   spelling=cfg.get("spelling", "abs"), observer=cfg.get("observer", "inotify"), delay=cfg.get("delay", 0.1),
                                   follow_symlink=cfg.get("follow_symlink", False))
                    break
                except OSError as e:
                    # the machine's inotify instances / watches are exhausted by other jobs: back off, never a verdict
                    if e.errno not in (_errno.EMFILE, _errno.ENFILE, _errno.ENOSPC):
                        raise
                    self.c("environment_backoffs")
                    if attempt == 5:
                        # still no inotify instance (the per-user limit of 128 is shared with every other job): this case
                        # is not run; a run with too few cases is inconclusive through its minimum counters
                        self.c("cases_skipped_for_lack_of_inotify_instances")
                        return self
                    _time.sleep(1.0 + attempt)
            self.sess = sess
            tree = restrict(sess.initial, True)
            pacer = Pacer()
            gen = OpGen(u, r, bias=cfg.get("bias"), pacing=cfg.get("pacing", True), allow_out_ops=cfg.get("out_ops", False))
            seg_ops: list = []
            try:
                sess.drain()
                sess.take()
                bg_stop = None
                if cfg.get("bg_writer"):
                    # another writer hammers a file in the root from its own thread (write(2) releases the GIL): its IN_MODIFY
                    # records land between the records of the history's own operations - also between the two halves of a
                    # rename.  Its events are filtered out like the sentinel's.
                    import threading as _th

                    bg_stop = _th.Event()
                    bg_fd = self._bg_fd  # opened before the watch started; closed after it ended (no open/close events of its own)

                    def _hammer():
                        n = 0
                        while not bg_stop.is_set():
                            try:
                                os.pwrite(bg_fd, b"x", 0)
                            except OSError:
                                return
                            n += 1
                        self.c("bg_writes", n)

                    bg_thread = _th.Thread(target=_hammer, name="wdv-bgwriter", daemon=True)
                    bg_thread.start()
                    self._bg = (bg_stop, bg_thread, bg_fd)
                if cfg.get("selfloop"):
                    # an entry whose stat() fails with ELOOP for ever (a symlink to itself) appears while the observer runs;
                    # its name is excluded from the ground truth and its own events are filtered like the sentinel's
                    os.symlink(fsrig.SENT + "-0loop", u.abs(u.root_name + "/" + fsrig.SENT + "-0loop"))
                script = cfg.get("script")
                n_ops = len(script) if script is not None else cfg["n_ops"]
                for i in range(n_ops):
                    if script is not None:
                        op = tuple(script[i])
                        if op[0] == "drain":
                            self._drain_and_check(sess, tree, seg_ops, justify, probes=(len(op) > 1 and op[1] == "probe"))
                            pacer.drained()
                            continue
                    else:
                        op = gen.next_op()
                    if op is None:
                        break
                    touches, names, hot = op_footprint(u, op)
                    single = cfg.get("single_step", False)
                    if cfg.get("pacing", True) and pacer.needs_drain(touches, names):
                        do_probe = cfg.get("probe_p", 0.0) > 0 and r.random() < cfg["probe_p"]
                        self._drain_and_check(sess, tree, seg_ops, justify, probes=do_probe)
                        pacer.drained()
                    u.tick_held()
                    rec = u.do(op)
                    rec["state_after"] = None
                    self.ops.append(list(op))
                    seg_ops.append(rec)
                    pacer.mark(hot)
                    if single:
                        self._drain_and_check(sess, tree, seg_ops, justify, probes=False, single=True)
                        pacer.drained()
                if getattr(self, "_bg", None):
                    self._bg[0].set()
                    self._bg[1].join(5)
                    self._bg = None
                self._drain_and_check(sess, tree, seg_ops, justify, probes=cfg.get("final_probes", True), final=True)
                if u.held:
                    # the late IN_DELETE_SELF / IN_IGNORED of directories that were held open arrive now: nothing may change
                    u.tick_held(force=True)
                    self._drain_and_check(sess, tree, seg_ops, justify, probes=cfg.get("final_probes", True), final=True)
                if cfg.get("root_probe"):
                    self._probe_root(sess)
                if cfg.get("delete_root"):
                    self._delete_root(sess)
            except DrainFailed as e:
                if e.reason == "library-thread-died":
                    rec = e.detail[0]
                    self.v("C07", f"library-thread-died:{rec['exc_type']}",
                           f"a library thread ({rec['thread_class']}) died with {rec['exc_type']}: {rec['exc']} and the stream stalled",
                           traceback=rec["traceback"][-1500:])
                    # nothing is delivered any more: the stream cannot reproduce the tree (C01) nor cover any directory (C02)
                    for pid_ in ("C01", "C02"):
                        self.v(pid_, "stream-ended-library-thread-died",
                               f"the event stream ended in the middle of the history: {rec['thread_class']} died with {rec['exc_type']}: {rec['exc']}",
                               traceback=rec["traceback"][-1500:], history=self.ops[-30:])
                elif e.reason == "sentinel-misspelled":
                    for pid_ in ("C19", "C03"):
                        self.v(pid_, "path-not-under-root-as-given" if pid_ == "C19" else "wrong-path",
                               f"the event of the drain sentinel arrived as {e.detail['got']} instead of {e.detail['want']} (the scheduled root joined with the entry's name)",
                               history=self.ops[-30:])
                else:
                    # a stalled stream: was monitoring stopped although the root is still there?
                    emitters = list(sess.obs.emitters)
                    root_there = os.path.isdir(u.abs(u.root_name))
                    if root_there and sess.obs.is_alive() and not any(em.is_alive() for em in emitters):
                        evs = sess.take()
                        rootdel = [fsrig.ev_desc(x) for x in evs if type(x).__name__ == "DirDeletedEvent" and sess.rel_of(x.src_path) == ""]
                        self.v("C07", "monitoring-stopped-while-root-exists",
                               "the watch's emitter stopped by itself although the watched root still exists; later changes are not reported"
                               + (f" (a DirDeletedEvent for the root was delivered: {rootdel[:1]})" if rootdel else ""), history=self.ops[-30:])
                    else:
                        self.inconclusive = "sentinel not delivered within the watchdog and no library thread died"
        finally:
            if getattr(self, "_bg", None):
                self._bg[0].set()
                self._bg[1].join(5)
                self._bg = None
            if sess is not None:
                try:
                    sess.close()
                except Exception:  # noqa: BLE001
                    pass
            if getattr(self, "_bg_fd", None) is not None:
                try:
                    os.close(self._bg_fd)
                except OSError:
                    pass
            set_read_size(None)
            u.cleanup()
        # any excepthook record of this session (even if the stream went on)
        if sess is not None:
            for rec in monitors.exc_since(sess.exc_mark):
                if rec["library"]:
                    self.v("C07", f"library-thread-died:{rec['exc_type']}",
                           f"thread {rec['thread_class']} died with {rec['exc_type']}: {rec['exc']}", traceback=rec["traceback"][-1500:])
                    break
        return self

    # ------------------------------------------------------------------------------------------------
    def _drain_and_check(self, sess: Session, tree, seg_ops, justify, probes, final=False, single=False):
        sess.drain()
        self.ops.append(["drain"])
        evs = [e for e in sess.take() if not fsrig.is_probe_event(e)]
        self.events_seen += len(evs)
        u = self.u
        # ---- C03 justification of this segment
        if justify is not None:
            justify(self, sess, seg_ops, evs, single)
        seg_ops.clear()
        # ---- C01 replay up to this quiescent point
        notes = fsrig.replay(tree, evs, sess)
        for n in notes:
            self.v("C01", "event-path-outside-root", n)
        want = restrict(u.walk_root(), sess.recursive)
        got = restrict(tree, sess.recursive)
        self.c("replay_comparisons")
        if final:
            self.c("final_replay_comparisons")
        if got != want:
            missing = sorted(set(want) - set(got))
            extra = sorted(set(got) - set(want))
            kinds = sorted(p for p in set(got) & set(want) if got[p] != want[p])
            self.v("C01", "replay-mismatch",
                   f"replaying the delivered created/deleted/moved events does not reproduce the tree: missing={missing[:6]} extra={extra[:6]} wrong-kind={kinds[:4]}",
                   missing=missing, extra=extra, recent_events=[fsrig.ev_desc(e) for e in evs][-25:])
            # resynchronise so that one defect is reported once
            tree.clear()
            tree.update(u.walk_root())
        # ---- C02 probes
        if probes:
            self._probe_all(sess)

    def _probe_root(self, sess: Session):
        """C07: whatever happened before, the root's own watch must still report a file created directly in the root."""
        u = self.u
        n = getattr(self, "_probe_n", 0) + 1
        self._probe_n = n
        name = f"{fsrig.PROBE}{n}"
        fd = os.open(u.abs(u.root_name + "/" + name), os.O_CREAT | os.O_EXCL | os.O_WRONLY, 0o644)
        os.close(fd)
        sess.drain()
        evs = sess.take()
        want = sess.spell(name)
        self.c("root_probes_judged")
        if not any(type(e).__name__ == "FileCreatedEvent" and e.src_path == want for e in evs):
            self.v("C07", "root-probe-unreported", f"after the history a file created directly in the root was not reported (expected {want!r})",
                   history=self.ops[-40:])
        os.unlink(u.abs(u.root_name + "/" + name))
        sess.drain()
        sess.take()

    def _delete_root(self, sess: Session):
        """C07: deleting the root delivers exactly one DirDeletedEvent(root) and that watch's emitter stops cleanly."""
        import shutil
        import time as _t

        u = self.u
        emitters = list(sess.obs.emitters)
        sess.take()
        shutil.rmtree(u.abs(u.root_name))
        end = _t.monotonic() + 10
        while _t.monotonic() < end and any(e.is_alive() for e in emitters):
            _t.sleep(0.01)
        # let the dispatcher finish what is queued
        end = _t.monotonic() + 5
        while _t.monotonic() < end and sess.obs.event_queue.unfinished_tasks:
            _t.sleep(0.005)
        _t.sleep(0.05)
        evs = sess.take()
        rootp = sess.root_spelled
        alt = {rootp, rootp.rstrip(b"/" if isinstance(rootp, bytes) else "/")}
        n = sum(1 for e in evs if type(e).__name__ == "DirDeletedEvent" and e.src_path in alt)
        self.c("root_deletions_judged")
        if n != 1:
            self.v("C07", "root-deleted-event-count", f"root removed: {n} DirDeletedEvent(root) delivered (expected exactly 1); tail={[fsrig.ev_desc(e) for e in evs][-6:]}")
        if any(e.is_alive() for e in emitters):
            self.v("C07", "emitter-alive-after-root-deleted", "the emitter of the deleted root is still alive 10 s later")
        if not sess.obs.is_alive():
            self.v("C07", "observer-died-on-root-deletion", "the observer thread itself ended when the root was deleted")

    def _probe_all(self, sess: Session):
        u = self.u
        root = u.root_name
        dirs = [root] + [p for p in sorted(u.m.t) if p.startswith(root + "/") and u.m.t[p] == "d"]
        n = getattr(self, "_probe_n", 0)
        made = []
        for d in dirs:
            n += 1
            name = f"{fsrig.PROBE}{n}"
            p = d + "/" + name
            fd = os.open(u.abs(p), os.O_CREAT | os.O_EXCL | os.O_WRONLY, 0o644)
            os.close(fd)
            made.append((d, p))
        self._probe_n = n
        sess.drain()
        evs = sess.take()
        created = {}
        for e in evs:
            if type(e).__name__ == "FileCreatedEvent":
                created.setdefault(e.src_path, []).append(e)
        mentioned = set()
        for e in evs:
            for q in (e.src_path, e.dest_path):
                if q:
                    mentioned.add(q)
        for d, p in made:
            rel = p[len(root) + 1:]
            want_path = sess.spell(rel)
            depth = rel.count("/")
            self.c("probes_judged")
            if sess.recursive or depth == 0:
                hit = [e for e in created.get(want_path, []) if not e.is_synthetic]
                if not hit:
                    near = [fsrig.ev_desc(e) for e in evs if os.path.basename(os.fsdecode(e.src_path)) == os.path.basename(p)]
                    how = "reported under another path" if near else "not reported at all"
                    self.v("C02", "probe-unreported" if not near else "probe-wrong-path",
                           f"a file created in existing directory {rel.rsplit('/', 1)[0] if '/' in rel else '<root>'} was {how} (expected FileCreatedEvent {want_path!r}; saw {near[:3]})",
                           directory=d, expected=repr(want_path), near=near[:5], history=self.ops[-40:])
                if d != root:
                    self.c("probes_in_dirs_not_present_at_start" if (d[len(root) + 1:] not in sess.initial) else "probes_in_initial_dirs")
            else:
                if any(os.path.basename(os.fsdecode(q)) == os.path.basename(p) for q in mentioned):
                    self.v("C02", "nonrecursive-reports-deep-change", f"non-recursive watch reported a change below a child directory: {rel}", directory=d)
        for d, p in made:
            os.unlink(u.abs(p))
        sess.drain()
        sess.take()


def account(b, h: History, prop, cfg, nontrivial):
    """Fold a finished History into the batch of property `prop`."""
    b.case()
    for k, v in h.counts.items():
        b.count(k, v)
    b.count("events_observed", h.events_seen)
    b.count("operations", sum(1 for o in h.ops if o[0] != "drain"))
    b.count("drains", sum(1 for o in h.ops if o[0] == "drain"))
    if h.inconclusive:
        b.inconc(f"{prop}: {h.inconclusive} (cfg={cfg})")
    if nontrivial:
        b.nontrivial([cfg, h.ops])
    seen = set()
    for p, mech, msg, det in h.viol:
        if p == prop:
            if mech in seen:
                continue
            seen.add(mech)
            b.violation(mech, msg + f"  [cfg={ {k: v for k, v in cfg.items() if k not in ('script',)} }]",
                        witness={"cfg": cfg, "history": h.ops, "detail": det},
                        replay_spec={"kind": "history1", "cfg": dict(cfg, script=h.ops)})
        else:
            b.count(f"side_observation_{p}_{mech.split(':')[0]}")
    if len(b.samples) < 2 and len(h.ops) > 5:
        b.sample({"cfg": {k: v for k, v in cfg.items() if k != "script"}, "history": h.ops[:40], "events_observed": h.events_seen})
