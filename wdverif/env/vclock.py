"""Virtual clock + waiter-counting Condition, installed as module globals of watchdog.utils.delayed_queue
(`time`, `threading`).  The driver knows exactly when a thread is parked in the condition or in the virtual sleep and
only then advances virtual time, so gaps of delay-eps / delay / delay+eps are placed exactly, independent of load."""

from __future__ import annotations

import threading
import time as _real_time


class VClock:
    def __init__(self, start=1000.0):
        self.now = start
        self._cv = threading.Condition()
        self.sleepers: dict[threading.Thread, float] = {}  # thread -> deadline (parked, not yet released)
        self.sleep_calls = 0
        self.sleep_log: list[tuple[str, float, float]] = []

    # what the code under test calls
    def time(self):
        return self.now

    monotonic = time

    def sleep(self, dt):
        me = threading.current_thread()
        with self._cv:
            self.sleep_calls += 1
            deadline = self.now + dt
            self.sleep_log.append((me.name, self.now, dt))
            if dt <= 0:
                return
            self.sleepers[me] = deadline
            while self.now < deadline and me in self.sleepers:
                self._cv.wait()
            self.sleepers.pop(me, None)

    # driver side
    def advance_to(self, t):
        with self._cv:
            if t > self.now:
                self.now = t
            for th, dl in list(self.sleepers.items()):
                if dl <= self.now:
                    del self.sleepers[th]  # released: counts as running from now on
            self._cv.notify_all()

    def advance(self, dt):
        self.advance_to(self.now + dt)

    def parked(self):
        with self._cv:
            return dict(self.sleepers)

    def next_deadline(self):
        with self._cv:
            return min(self.sleepers.values()) if self.sleepers else None


class CountingCondition(threading.Condition):
    """threading.Condition that knows how many waiters are parked and not yet notified."""

    def __init__(self, lock=None):
        super().__init__(lock)
        self.parked = 0
        self.notified = 0
        self.wait_calls = 0

    def wait(self, timeout=None):
        self.parked += 1
        self.wait_calls += 1
        try:
            return super().wait(timeout)
        finally:
            self.parked -= 1
            if self.notified > 0:
                self.notified -= 1

    def notify(self, n=1):
        k = min(n, self.parked - self.notified)
        if k > 0:
            self.notified += k
        super().notify(n)

    def notify_all(self):
        self.notify(max(self.parked, 1))

    def truly_parked(self):
        return self.parked - self.notified


class ThreadingProxy:
    """Stands in for the `threading` module inside delayed_queue: same names, Condition replaced."""

    def __init__(self):
        self.conditions: list[CountingCondition] = []

    def Condition(self, lock=None):  # noqa: N802
        c = CountingCondition(lock)
        self.conditions.append(c)
        return c

    def __getattr__(self, name):
        return getattr(threading, name)


class ClockProxy:
    """Stands in for the `time` module: delegates to the current VClock."""

    def __init__(self):
        self.clock = VClock()

    def time(self):
        return self.clock.time()

    def monotonic(self):
        return self.clock.time()

    def sleep(self, dt):
        return self.clock.sleep(dt)

    def __getattr__(self, name):
        return getattr(_real_time, name)


_installed = None


def install():
    """Replace delayed_queue.time / delayed_queue.threading (idempotent).  Returns (clock_proxy, threading_proxy)."""
    global _installed
    if _installed is None:
        from watchdog.utils import delayed_queue as dq

        cp, tp = ClockProxy(), ThreadingProxy()
        dq.time = cp
        dq.threading = tp
        _installed = (cp, tp)
    return _installed


_installed_cond_only = None


def install_counting_condition_only():
    """Replace only delayed_queue.threading (real clock kept): lets a rig see whether a consumer is parked in the queue's condition."""
    global _installed_cond_only
    if _installed is not None:
        return _installed[1]
    if _installed_cond_only is None:
        from watchdog.utils import delayed_queue as dq

        tp = ThreadingProxy()
        dq.threading = tp
        _installed_cond_only = tp
    return _installed_cond_only
