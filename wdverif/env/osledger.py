"""Descriptor sanitizer for watchdog.observers.inotify_c: module-global proxies for `os`, `select`, `inotify_init`,
`inotify_add_watch`, `inotify_rm_watch` that forward to the real kernel but keep a ledger of every descriptor the library
opened (owner group, open -> closed).  Violations are recorded at the call that commits them, with the stack:
  use-after-close  read/poll/write/add_watch/rm_watch on a descriptor the library already closed (even where the code would
                   swallow the EBADF, and even where the number was re-used by somebody else meanwhile)
  double-close     os.close on a descriptor that is not open in the ledger
  leak             (audit) descriptors still open when their owner's shutdown has completed / construction has failed
It can also inject a failure at the k-th inotify_init / inotify_add_watch and OSError at the k-th os.read.
"""

from __future__ import annotations

import ctypes
import os as _os
import select as _select
import threading
import traceback


class Ledger:
    def __init__(self):
        self.lock = threading.RLock()
        self.open: dict[int, dict] = {}  # fd -> record
        self.closed_by_lib: dict[int, dict] = {}  # fd numbers the library closed and that it has not re-opened since
        self.groups: list[dict] = []
        self.violations: list[dict] = []
        self.calls = {"inotify_init": 0, "inotify_add_watch": 0, "inotify_rm_watch": 0, "read": 0, "write": 0, "close": 0, "pipe": 0, "poll": 0}
        self.fail_init_at: dict[int, int] = {}  # ordinal -> errno
        self.fail_add_at: dict[int, int] = {}
        self.fail_read_at: dict[int, int] = {}
        self.fired: list = []
        self.armed = True
        self._cur_group = threading.local()

    # ---- bookkeeping
    def _stack(self):
        return [f"{_os.path.basename(f.filename)}:{f.lineno}:{f.name}" for f in traceback.extract_stack()[-9:-2]]

    def _opened(self, fd, kind):
        with self.lock:
            g = getattr(self._cur_group, "g", None)
            if kind == "inotify":
                g = {"fds": [], "root": None, "thread": threading.current_thread().name, "id": len(self.groups)}
                self.groups.append(g)
                self._cur_group.g = g
            rec = {"fd": fd, "kind": kind, "group": g["id"] if g else None, "opened_by": threading.current_thread().name}
            self.open[fd] = rec
            self.closed_by_lib.pop(fd, None)
            if g is not None:
                g["fds"].append(fd)

    def _use(self, fd, what):
        with self.lock:
            if fd in self.open:
                return True
            if fd in self.closed_by_lib:
                self.violations.append({"kind": "use-after-close", "what": what, "fd": fd, "thread": threading.current_thread().name,
                                        "closed_at": self.closed_by_lib[fd]["stack"], "stack": self._stack()})
                return False
            return True  # not ours

    def _close(self, fd):
        with self.lock:
            if fd in self.open:
                rec = self.open.pop(fd)
                rec["stack"] = self._stack()
                rec["closed_by"] = threading.current_thread().name
                self.closed_by_lib[fd] = rec
                return True
            if fd in self.closed_by_lib:
                self.violations.append({"kind": "double-close", "fd": fd, "thread": threading.current_thread().name,
                                        "closed_at": self.closed_by_lib[fd]["stack"], "stack": self._stack()})
                return False
            return True

    def open_fds(self):
        with self.lock:
            return dict(self.open)

    def group_open(self, root: bytes):
        with self.lock:
            out = []
            for g in self.groups:
                if g["root"] == root:
                    out += [fd for fd in g["fds"] if fd in self.open and self.open[fd]["group"] == g["id"]]
            return out

    def take_violations(self):
        with self.lock:
            v, self.violations = self.violations, []
            return v


class _OsProxy:
    def __init__(self, led: Ledger):
        self._led = led

    def __getattr__(self, name):
        return getattr(_os, name)

    def read(self, fd, n):
        led = self._led
        led.calls["read"] += 1
        i = led.calls["read"] - 1
        led._use(fd, "read")
        e = led.fail_read_at.pop(i, None) if led.armed else None
        if e is not None:
            led.fired.append(("read", i, e))
            raise OSError(e, _os.strerror(e))
        return _os.read(fd, n)

    def write(self, fd, data):
        self._led.calls["write"] += 1
        self._led._use(fd, "write")
        return _os.write(fd, data)

    def close(self, fd):
        self._led.calls["close"] += 1
        if self._led._close(fd):
            return _os.close(fd)
        # a double close is recorded, then forwarded so that the code sees what the kernel says
        return _os.close(fd)

    def pipe(self):
        self._led.calls["pipe"] += 1
        r, w = _os.pipe()
        self._led._opened(r, "pipe-r")
        self._led._opened(w, "pipe-w")
        return r, w


class _PollProxy:
    def __init__(self, led: Ledger):
        self._led = led
        self._p = _select.poll()
        self._fds = []
        self.parked = False

    def register(self, fd, mask=None):
        self._fds.append(fd)
        return self._p.register(fd, mask) if mask is not None else self._p.register(fd)

    def unregister(self, fd):
        return self._p.unregister(fd)

    def poll(self, *a):
        self._led.calls["poll"] += 1
        for fd in self._fds:
            self._led._use(fd, "poll")
        self.parked = True
        try:
            return self._p.poll(*a)
        finally:
            self.parked = False


class _SelectProxy:
    def __init__(self, led: Ledger):
        self._led = led
        self.pollers: list[_PollProxy] = []

    def __getattr__(self, name):
        return getattr(_select, name)

    def poll(self):
        p = _PollProxy(self._led)
        self.pollers.append(p)
        return p


_installed = None


def install():
    """Idempotent.  Returns the Ledger (fresh state via reset())."""
    global _installed
    if _installed is not None:
        return _installed
    from watchdog.observers import inotify_c

    led = Ledger()
    real_init, real_add, real_rm = inotify_c.inotify_init, inotify_c.inotify_add_watch, inotify_c.inotify_rm_watch

    def inotify_init():
        i = led.calls["inotify_init"]
        led.calls["inotify_init"] += 1
        e = led.fail_init_at.pop(i, None) if led.armed else None
        if e is not None:
            led.fired.append(("inotify_init", i, e))
            ctypes.set_errno(e)
            return -1
        fd = real_init()
        if fd != -1:
            led._opened(fd, "inotify")
        return fd

    def inotify_add_watch(fd, path, mask):
        i = led.calls["inotify_add_watch"]
        led.calls["inotify_add_watch"] += 1
        led._use(fd, "inotify_add_watch")
        with led.lock:
            rec = led.open.get(fd)
            if rec is not None and rec["group"] is not None and led.groups[rec["group"]]["root"] is None:
                led.groups[rec["group"]]["root"] = path
        e = led.fail_add_at.pop(i, None) if led.armed else None
        if e is not None:
            led.fired.append(("inotify_add_watch", i, e, path))
            ctypes.set_errno(e)
            return -1
        return real_add(fd, path, mask)

    def inotify_rm_watch(fd, wd):
        led.calls["inotify_rm_watch"] += 1
        led._use(fd, "inotify_rm_watch")
        return real_rm(fd, wd)

    inotify_c.inotify_init = inotify_init
    inotify_c.inotify_add_watch = inotify_add_watch
    inotify_c.inotify_rm_watch = inotify_rm_watch
    inotify_c.os = _OsProxy(led)
    inotify_c.select = _SelectProxy(led)
    led.select_proxy = inotify_c.select
    _installed = led
    return led


def reset(led: Ledger):
    with led.lock:
        led.open.clear()
        led.closed_by_lib.clear()
        led.groups.clear()
        led.violations.clear()
        led.fired.clear()
        for k in led.calls:
            led.calls[k] = 0
        led.fail_init_at.clear()
        led.fail_add_at.clear()
        led.fail_read_at.clear()
        led.select_proxy.pollers.clear()
