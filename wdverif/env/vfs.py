"""Dict-backed virtual file system behind the snapshot's injectable stat/listdir.

state: {relative path 'a/b' -> Ent}; the root itself is ROOT with its own Ent.
Every stat/listdir call is counted; a fault plan {call_index: errno} makes that call raise OSError.
"""

from __future__ import annotations

import errno
import os
import stat as statmod
from collections import namedtuple

Ent = namedtuple("Ent", "ino dev isdir mtime size")
St = namedtuple("St", "st_ino st_dev st_mode st_mtime st_size st_nlink st_uid st_gid st_atime st_ctime")


class _DirEntry:
    __slots__ = ("name", "path")

    def __init__(self, name, path):
        self.name = name
        self.path = path


LAZY = False  # default for VFS.lazy (set per batch)


class VFS:
    def __init__(self, root="/r", root_ent=Ent(1000, 0, True, 0, 0), as_bytes=False):
        self.as_bytes = as_bytes
        self.root = os.fsencode(root) if as_bytes else root
        self.root_ent = root_ent
        self.state: dict[str, Ent] = {}
        self.calls = 0
        self.log: list[tuple[str, object]] = []
        self.faults: dict[int, int] = {}
        self.fired: list[tuple[int, str, object, int]] = []
        self.keep_log = False
        # lazy: listdir returns a generator that does its work (and fails) on the first next(), like
        # `def listdir(p): with os.scandir(p) as it: yield from it` - legal for the injectable listdir
        self.lazy = LAZY
        self.special: dict[int, int] = {}  # inode -> S_IF* of entries that are neither regular files nor directories
        self.hook = None  # called as hook(vfs, kind, path) before each call (may mutate state: races)

    # -- helpers
    def set_state(self, state: dict) -> None:
        self.state = dict(state)

    def _rel(self, path):
        p = os.fsdecode(path) if isinstance(path, bytes) else path
        r = os.fsdecode(self.root) if isinstance(self.root, bytes) else self.root
        if p == r:
            return ""
        if p.startswith(r + "/"):
            return p[len(r) + 1 :]
        raise OSError(errno.ENOENT, "outside vfs", path)

    def full(self, rel: str):
        r = os.fsdecode(self.root) if isinstance(self.root, bytes) else self.root
        p = r if rel == "" else r + "/" + rel
        return os.fsencode(p) if self.as_bytes else p

    def _maybe_fault(self, kind, path):
        idx = self.calls
        self.calls += 1
        if self.keep_log:
            self.log.append((kind, path))
        if self.hook is not None:
            self.hook(self, kind, path, idx)
        e = self.faults.get(idx)
        if e is not None:
            self.fired.append((idx, kind, path, e))
            raise OSError(e, os.strerror(e), path)

    def _lookup(self, rel):
        if rel == "":
            if self.root_ent is None:
                raise OSError(errno.ENOENT, "root gone")
            return self.root_ent
        # every ancestor must exist and be a directory
        parts = rel.split("/")
        for i in range(1, len(parts)):
            anc = "/".join(parts[:i])
            e = self.state.get(anc)
            if e is None:
                raise OSError(errno.ENOENT, "no such", rel)
            if not e.isdir:
                raise OSError(errno.ENOTDIR, "not a dir", rel)
        if self.root_ent is None:
            raise OSError(errno.ENOENT, "root gone")
        e = self.state.get(rel)
        if e is None:
            raise OSError(errno.ENOENT, "no such", rel)
        return e

    # -- injectable functions
    def stat(self, path):
        self._maybe_fault("stat", path)
        e = self._lookup(self._rel(path))
        mode = (statmod.S_IFDIR | 0o755) if e.isdir else (self.special.get(e.ino, statmod.S_IFREG) | 0o644)
        return St(e.ino, e.dev, mode, e.mtime, e.size, 1, 0, 0, 0, 0)

    def listdir(self, path):
        if self.lazy:
            return self._listdir_gen(path)
        return self._listdir(path)

    def _listdir_gen(self, path):
        yield from self._listdir(path)

    def _listdir(self, path):
        self._maybe_fault("listdir", path)
        rel = self._rel(path)
        e = self._lookup(rel)
        if not e.isdir:
            raise OSError(errno.ENOTDIR, "not a dir", path)
        pre = rel + "/" if rel else ""
        names = sorted({k[len(pre) :] for k in self.state if k.startswith(pre) and "/" not in k[len(pre) :]})
        out = []
        for n in names:
            nm = os.fsencode(n) if self.as_bytes else n
            out.append(_DirEntry(nm, os.path.join(path, nm)))
        return iter(out)

    # -- ground truth
    def reachable(self, recursive=True, state=None) -> dict:
        """{full path -> Ent} of what a correct snapshot must contain right now."""
        st = self.state if state is None else state
        out = {self.full(""): self.root_ent}
        for rel, e in st.items():
            parts = rel.split("/")
            if not recursive and len(parts) > 1:
                continue
            ok = True
            for i in range(1, len(parts)):
                anc = st.get("/".join(parts[:i]))
                if anc is None or not anc.isdir:
                    ok = False
                    break
            if ok:
                out[self.full(rel)] = e
        return out
