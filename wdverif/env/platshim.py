"""Import shims that let the Windows (ReadDirectoryChangesW) and macOS (FSEvents) translation layers run on Linux:
  * ctypes.WinDLL -> fake kernel32 whose ReadDirectoryChangesW fills the caller's ctypes buffer from a script;
    ctypes.wintypes.DWORD pinned to 32 bits BEFORE the import, so FileNotifyInformation has the true Windows layout;
  * sys.modules['_watchdog_fsevents'] -> module with a Python NativeEvent (same flag properties as the C type) and inert
    add_watch / read_events / stop.
The kernels themselves are simulated (documented semantics only); that fidelity is an assumption of C20."""

from __future__ import annotations

import ctypes
import struct
import sys
import threading
import types

# ------------------------------------------------------------------------------------------------ FSEvents
F_MUST_SCAN = 0x1
F_USER_DROPPED = 0x2
F_KERNEL_DROPPED = 0x4
F_IDS_WRAPPED = 0x8
F_HISTORY_DONE = 0x10
F_ROOT_CHANGED = 0x20
F_MOUNT = 0x40
F_UNMOUNT = 0x80
F_CREATED = 0x100
F_REMOVED = 0x200
F_INODE_META = 0x400
F_RENAMED = 0x800
F_MODIFIED = 0x1000
F_FINDER_INFO = 0x2000
F_CHOWN = 0x4000
F_XATTR = 0x8000
F_IS_FILE = 0x10000
F_IS_DIR = 0x20000
F_IS_SYMLINK = 0x40000


class NativeEvent:
    def __init__(self, path, inode, flags, event_id):
        self.path = path
        self.inode = inode
        self.flags = flags
        self.event_id = event_id

    def _f(self, bit):
        return bool(self.flags & bit)

    is_must_scan_subdirs = property(lambda s: s._f(F_MUST_SCAN))
    is_user_dropped = property(lambda s: s._f(F_USER_DROPPED))
    is_kernel_dropped = property(lambda s: s._f(F_KERNEL_DROPPED))
    is_event_ids_wrapped = property(lambda s: s._f(F_IDS_WRAPPED))
    is_history_done = property(lambda s: s._f(F_HISTORY_DONE))
    is_root_changed = property(lambda s: s._f(F_ROOT_CHANGED))
    is_mount = property(lambda s: s._f(F_MOUNT))
    is_unmount = property(lambda s: s._f(F_UNMOUNT))
    is_created = property(lambda s: s._f(F_CREATED))
    is_removed = property(lambda s: s._f(F_REMOVED))
    is_inode_meta_mod = property(lambda s: s._f(F_INODE_META))
    is_renamed = property(lambda s: s._f(F_RENAMED))
    is_modified = property(lambda s: s._f(F_MODIFIED))
    is_item_finder_info_modified = property(lambda s: s._f(F_FINDER_INFO))
    is_owner_change = property(lambda s: s._f(F_CHOWN))
    is_xattr_mod = property(lambda s: s._f(F_XATTR))
    is_file = property(lambda s: s._f(F_IS_FILE))
    is_directory = property(lambda s: s._f(F_IS_DIR))
    is_symlink = property(lambda s: s._f(F_IS_SYMLINK))
    is_coalesced = property(lambda s: bin(s.flags & (F_CREATED | F_REMOVED | F_RENAMED)).count("1") > 1)

    def __repr__(self):
        return f"<NativeEvent path={self.path!r} inode={self.inode} flags={self.flags:#x}>"


def install_fsevents():
    if "_watchdog_fsevents" in sys.modules:
        return sys.modules["_watchdog_fsevents"]
    m = types.ModuleType("_watchdog_fsevents")
    m.NativeEvent = NativeEvent
    m._stops = {}

    def add_watch(emitter, watch, callback, pathnames):
        m._stops[id(emitter)] = threading.Event()

    def read_events(emitter):
        ev = m._stops.get(id(emitter))
        if ev is not None:
            ev.wait()

    def remove_watch(watch):
        pass

    def stop(emitter):
        ev = m._stops.get(id(emitter))
        if ev is not None:
            ev.set()

    m.add_watch, m.read_events, m.remove_watch, m.stop = add_watch, read_events, remove_watch, stop
    m.loop = lambda *a, **k: None
    m.schedule = lambda *a, **k: None
    m.POLLIN = m.POLLOUT = 0
    sys.modules["_watchdog_fsevents"] = m
    return m


# ------------------------------------------------------------------------------------------------ Windows
FILE_ACTION_ADDED = 1
FILE_ACTION_REMOVED = 2
FILE_ACTION_MODIFIED = 3
FILE_ACTION_RENAMED_OLD_NAME = 4
FILE_ACTION_RENAMED_NEW_NAME = 5


def pack_fni(records, pad_words=0, exact_last=True):
    """Encode [(action, name)] as a FILE_NOTIFY_INFORMATION chain (DWORD NextEntryOffset, Action, FileNameLength, WCHAR name[]),
    entries DWORD-aligned plus `pad_words` extra DWORDs of padding; NextEntryOffset of the last one is 0."""
    out = b""
    for i, (action, name) in enumerate(records):
        nm = name.encode("utf-16-le")
        body = struct.pack("<III", 0, action, len(nm)) + nm
        size = (len(body) + 3) // 4 * 4 + 4 * pad_words
        last = i == len(records) - 1
        if last:
            entry = body if exact_last else body + b"\0" * (size - len(body))
            entry = struct.pack("<I", 0) + entry[4:]
        else:
            entry = struct.pack("<I", size) + body[4:] + b"\0" * (size - len(body))
        out += entry
    return out


class _Fn:
    def __init__(self, name, impl):
        self.__name__ = name
        self.impl = impl
        self.restype = None
        self.errcheck = None
        self.argtypes = None

    def __call__(self, *a):
        return self.impl(*a)


class FakeKernel32:
    def __init__(self):
        self.batches: list[bytes] = []
        self.handles = {}
        self.next_handle = 100
        self.calls = 0
        self.last_recursive = None
        for name in ("CreateFileW", "CloseHandle", "CancelIoEx", "CreateEventW", "SetEvent", "WaitForSingleObjectEx", "CreateIoCompletionPort",
                     "GetQueuedCompletionStatus", "PostQueuedCompletionStatus", "GetFinalPathNameByHandleW", "ReadDirectoryChangesW"):
            setattr(self, name, _Fn(name, getattr(self, "_" + name, lambda *a: 1)))

    def _CreateFileW(self, path, *a):  # noqa: N802
        h = self.next_handle
        self.next_handle += 1
        self.handles[h] = path
        return h

    def _CloseHandle(self, h):  # noqa: N802
        self.handles.pop(h, None)
        return 1

    def _ReadDirectoryChangesW(self, handle, buf_ref, buflen, recursive, flags, nbytes_ref, ov, cb):  # noqa: N802
        self.calls += 1
        self.last_recursive = bool(recursive)
        data = self.batches.pop(0) if self.batches else b""
        buf = buf_ref._obj
        ctypes.memmove(buf, data, len(data))
        nbytes_ref._obj.value = len(data)
        return 1


_K32 = None


def install_winapi():
    """Returns the FakeKernel32 (singleton).  Must run before watchdog.observers.winapi is imported."""
    global _K32
    if _K32 is not None:
        return _K32
    import ctypes.wintypes as wt

    wt.DWORD = ctypes.c_uint32
    wt.BOOL = ctypes.c_int
    _K32 = FakeKernel32()
    ctypes.WinDLL = lambda name, *a, **k: _K32
    if not hasattr(ctypes, "WinError"):
        ctypes.WinError = lambda *a: OSError("WinError (shim)")
    import watchdog.observers.winapi as winapi  # noqa: F401

    assert ctypes.sizeof(winapi.FileNotifyInformation) == 16 and winapi.FileNotifyInformation.FileName.offset == 12
    return _K32
