"""Simulated process table behind watchdog.tricks.{subprocess, kill_process, time}: a fake Popen whose life is scripted,
a kill_process that looks pids up in the table (ProcessLookupError for the dead), and a clock whose sleep() costs ~1 ms while
time() advances by the requested amount (so kill_after costs nothing).  Every spawn/signal/exit is logged with a logical
stamp and the live set after the transition."""

from __future__ import annotations

import itertools
import subprocess as _subprocess
import threading
import time as _time

_STAMP = itertools.count(1)


def stamp():
    return next(_STAMP)


class FakeProc:
    def __init__(self, table, pid, behaviour):
        self.table = table
        self.pid = pid
        self.beh = dict(behaviour)
        self.returncode = None
        self.signalled = None  # first signal received
        self.polls_since_signal = 0
        self.exited = threading.Event()
        self.spawn_t = _time.monotonic()

    # what the library calls
    def poll(self):
        with self.table.lock:
            if self.returncode is None:
                if self.signalled is not None:
                    self.polls_since_signal += 1
                    need = self.beh.get("die_after_polls", 1)
                    if (self.signalled == 9 or not self.beh.get("ignore_sigint")) and self.polls_since_signal >= need:
                        self.table._exit(self, -self.signalled)
                elif self.beh.get("self_exit_after") is not None and _time.monotonic() - self.spawn_t >= self.beh["self_exit_after"]:
                    self.table._exit(self, 0)
            return self.returncode

    def wait(self, timeout=None):
        end = None if timeout is None else _time.monotonic() + timeout
        while self.poll() is None:
            if end is not None and _time.monotonic() > end:
                raise _subprocess.TimeoutExpired("fake", timeout)
            _time.sleep(0.002)
        return self.returncode

    def kill(self):
        self.table.kill(self.pid, 9)

    def terminate(self):
        self.table.kill(self.pid, 15)


class ProcTable:
    def __init__(self, behaviours=None, default=None):
        self.lock = threading.RLock()
        self.procs: dict[int, FakeProc] = {}
        self.live: set[int] = set()
        self.log: list[dict] = []
        self.next_pid = 5000
        self.behaviours = list(behaviours or [])
        self.default = default or {"die_after_polls": 1}
        self.max_live = 0

    def _log(self, what, pid, **kw):
        rec = {"t": stamp(), "what": what, "pid": pid, "live": sorted(self.live), "thread": threading.current_thread().name,
               "thread_class": type(threading.current_thread()).__name__}
        rec.update(kw)
        self.log.append(rec)

    def spawn(self, cmd):
        with self.lock:
            pid = self.next_pid
            self.next_pid += 1
            beh = self.behaviours.pop(0) if self.behaviours else self.default
            p = FakeProc(self, pid, beh)
            self.procs[pid] = p
            self.live.add(pid)
            self.max_live = max(self.max_live, len(self.live))
            self._log("spawn", pid, cmd=str(cmd)[:40])
            return p

    def _exit(self, p, rc):
        p.returncode = rc
        self.live.discard(p.pid)
        p.exited.set()
        self._log("exit", p.pid, rc=rc)

    def kill(self, pid, sig):
        with self.lock:
            p = self.procs.get(pid)
            if p is None or p.returncode is not None:
                self._log("signal-dead", pid, sig=sig)
                raise ProcessLookupError(3, "No such process")
            if p.signalled is None or sig == 9:
                p.signalled = sig
                p.polls_since_signal = 0
            self._log("signal", pid, sig=sig)
            if sig == 9:
                # SIGKILL cannot be ignored and takes effect at once as far as the process table is concerned
                self._exit(p, -9)

    def live_now(self):
        with self.lock:
            # let time-based self exits happen
            for p in list(self.procs.values()):
                if p.returncode is None and p.signalled is None:
                    p.poll()
            return sorted(self.live)


class SubprocessProxy:
    def __init__(self, table: ProcTable):
        self._t = table

    def __getattr__(self, name):
        return getattr(_subprocess, name)

    def Popen(self, cmd, *a, **kw):  # noqa: N802
        return self._t.spawn(cmd)


class FastClock:
    """time() advances by what is slept; sleep() costs ~1 ms of real time."""

    def __init__(self):
        self.now = 1000.0
        self.lock = threading.Lock()

    def time(self):
        with self.lock:
            return self.now

    def sleep(self, dt):
        with self.lock:
            self.now += dt
        _time.sleep(0.001)

    def __getattr__(self, name):
        return getattr(_time, name)


class Installed:
    def __init__(self):
        from watchdog import tricks

        self.mod = tricks
        self.saved = (tricks.subprocess, tricks.kill_process, tricks.time)
        self.table = None

    def fresh(self, behaviours=None, default=None):
        t = ProcTable(behaviours, default)
        self.table = t
        self.mod.subprocess = SubprocessProxy(t)
        self.mod.kill_process = t.kill
        self.mod.time = FastClock()
        return t

    def restore(self):
        self.mod.subprocess, self.mod.kill_process, self.mod.time = self.saved
