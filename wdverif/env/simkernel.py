"""Simulated inotify kernel under the REAL Inotify / InotifyBuffer classes: module-global proxies for
inotify_c.{inotify_init, inotify_add_watch, inotify_rm_watch, os, select}.  Descriptors are fake objects-by-number; read()
returns only what the script released (whole records that fit the requested size, packed exactly as the kernel packs them);
the poll wrapper knows when the reader is parked (exact quiescence); any use of a closed descriptor is recorded."""

from __future__ import annotations

import os as _os
import select as _select
import struct
import threading

IN_MODIFY = 0x2
IN_ATTRIB = 0x4
IN_MOVED_FROM = 0x40
IN_MOVED_TO = 0x80
IN_CREATE = 0x100
IN_DELETE = 0x200
IN_IGNORED = 0x8000
IN_ISDIR = 0x40000000


def pack(wd, mask, cookie, name: bytes, pad_to=16):
    """One struct inotify_event; the name is NUL-terminated and padded to a multiple of pad_to (kernel: 16), 0 length if empty."""
    if name:
        ln = len(name) + 1
        ln = (ln + pad_to - 1) // pad_to * pad_to
        nm = name + b"\0" * (ln - len(name))
    else:
        ln, nm = 0, b""
    return struct.pack("iIII", wd, mask, cookie, ln) + nm


class SimKernel:
    def __init__(self):
        self.cv = threading.Condition()
        self.next_fd = 1000
        self.fds: dict[int, dict] = {}
        self.next_wd = 1
        self.violations: list[dict] = []
        self.reads: list[int] = []  # number of records handed out per read
        self.polls_parked = 0

    # ---- fd table
    def _new_fd(self, kind):
        with self.cv:
            fd = self.next_fd
            self.next_fd += 1
            self.fds[fd] = {"kind": kind, "open": True, "records": [], "readable": False, "watches": {}}
            return fd

    def _check(self, fd, what):
        f = self.fds.get(fd)
        if f is None:
            return None
        if not f["open"]:
            self.violations.append({"kind": "use-after-close" if what != "close" else "double-close", "what": what, "fd": fd,
                                    "thread": threading.current_thread().name})
        return f

    # ---- what the library calls
    def inotify_init(self):
        return self._new_fd("inotify")

    def inotify_add_watch(self, fd, path, mask):
        with self.cv:
            f = self._check(fd, "inotify_add_watch")
            for wd, p in f["watches"].items():
                if p == path:
                    return wd
            wd = self.next_wd
            self.next_wd += 1
            f["watches"][wd] = path
            return wd

    def inotify_rm_watch(self, fd, wd):
        with self.cv:
            f = self._check(fd, "inotify_rm_watch")
            if f and f["open"] and wd in f["watches"]:
                del f["watches"][wd]
                f["records"].append(pack(wd, IN_IGNORED, 0, b""))
                self.cv.notify_all()
                return 0
            return -1

    def pipe(self):
        r = self._new_fd("pipe-r")
        w = self._new_fd("pipe-w")
        self.fds[r]["peer"] = w
        self.fds[w]["peer"] = r
        return r, w

    def read(self, fd, n):
        with self.cv:
            f = self._check(fd, "read")
            if f is None:
                return _os.read(fd, n)
            if not f["open"]:
                raise OSError(9, "Bad file descriptor")
            while not f["records"]:
                self.cv.wait()
                if not f["open"]:
                    raise OSError(9, "Bad file descriptor")
            out = b""
            k = 0
            while f["records"] and len(out) + len(f["records"][0]) <= n:
                out += f["records"].pop(0)
                k += 1
            if k == 0:
                raise OSError(22, "Invalid argument")  # buffer too small for the next record (as the kernel does)
            self.reads.append(k)
            return out

    def write(self, fd, data):
        with self.cv:
            f = self._check(fd, "write")
            if f is None:
                return _os.write(fd, data)
            if f["open"]:
                peer = self.fds[f["peer"]]
                peer["records"].append(data)
                self.cv.notify_all()
            return len(data)

    def close(self, fd):
        with self.cv:
            f = self._check(fd, "close")
            if f is None:
                return _os.close(fd)
            f["open"] = False
            self.cv.notify_all()

    # ---- script side
    def release(self, fd, records: list[bytes]):
        with self.cv:
            self.fds[fd]["records"].extend(records)
            self.cv.notify_all()

    def pending(self, fd):
        with self.cv:
            return len(self.fds[fd]["records"])


class _SimPoll:
    def __init__(self, k: SimKernel):
        self.k = k
        self.fds = []
        self.parked = False

    def register(self, fd, mask=None):
        self.fds.append(fd)

    def poll(self, *a):
        k = self.k
        with k.cv:
            for fd in self.fds:
                k._check(fd, "poll")
            while True:
                ready = [(fd, _select.POLLIN) for fd in self.fds if k.fds[fd]["records"]]
                if ready:
                    self.parked = False
                    return ready
                if any(not k.fds[fd]["open"] for fd in self.fds):
                    self.parked = False
                    return [(fd, _select.POLLNVAL) for fd in self.fds if not k.fds[fd]["open"]]
                self.parked = True
                k.polls_parked += 1
                k.cv.wait()


class _OsProxy:
    def __init__(self, k):
        self._k = k

    def __getattr__(self, name):
        return getattr(_os, name)

    def read(self, fd, n):
        return self._k.read(fd, n)

    def write(self, fd, data):
        return self._k.write(fd, data)

    def close(self, fd):
        return self._k.close(fd)

    def pipe(self):
        return self._k.pipe()


class _SelectProxy:
    def __init__(self, k):
        self._k = k
        self.pollers = []

    def __getattr__(self, name):
        return getattr(_select, name)

    def poll(self):
        p = _SimPoll(self._k)
        self.pollers.append(p)
        return p


class Installed:
    def __init__(self):
        from watchdog.observers import inotify_c

        self.mod = inotify_c
        self.saved = (inotify_c.inotify_init, inotify_c.inotify_add_watch, inotify_c.inotify_rm_watch, inotify_c.os, inotify_c.select)
        self.k = SimKernel()
        self.sel = _SelectProxy(self.k)
        inotify_c.inotify_init = self.k.inotify_init
        inotify_c.inotify_add_watch = self.k.inotify_add_watch
        inotify_c.inotify_rm_watch = self.k.inotify_rm_watch
        inotify_c.os = _OsProxy(self.k)
        inotify_c.select = self.sel

    def fresh(self):
        self.k = SimKernel()
        self.sel = _SelectProxy(self.k)
        m = self.mod
        m.inotify_init = self.k.inotify_init
        m.inotify_add_watch = self.k.inotify_add_watch
        m.inotify_rm_watch = self.k.inotify_rm_watch
        m.os = _OsProxy(self.k)
        m.select = self.sel
        return self.k

    def restore(self):
        m = self.mod
        m.inotify_init, m.inotify_add_watch, m.inotify_rm_watch, m.os, m.select = self.saved
