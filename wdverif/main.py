from __future__ import annotations

import argparse
import os
import sys

from wdverif import runner


def main() -> int:
    ap = argparse.ArgumentParser()
    ap.add_argument("prop")
    ap.add_argument("--tier", default=os.environ.get("VERIF_TIER", "quick"), choices=["quick", "thorough"])
    ap.add_argument("--replay", default=None)
    ap.add_argument("--jobs", type=int, default=int(os.environ.get("VERIF_JOBS", "16")))
    ap.add_argument("--seed", type=int, default=int(os.environ.get("VERIF_SEED", "0") or 0))
    a = ap.parse_args()
    return runner.run_check(a.prop.upper(), a.tier, a.seed, a.jobs, a.replay)


if __name__ == "__main__":
    sys.exit(main())
