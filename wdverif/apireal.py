"""Engine shared by C06 (no deadlock / all threads end) and C12 (descriptors and threads released exactly once):
API call sequences and directed hold sweeps against the REAL inotify / polling observers on scratch directories, under the
descriptor ledger (env/osledger.py), the thread ledger and the hang classifier."""

from __future__ import annotations

import errno
import os
import shutil
import tempfile
import threading
import time

from wdverif import monitors
from wdverif.env import osledger
from wdverif.instrument import Hold, Instr

DOCUMENTED = (OSError, KeyError, RuntimeError)


def is_library_thread(t: threading.Thread) -> bool:
    return type(t).__module__.startswith("watchdog.")


class Handler:
    def __init__(self, hook=None):
        self.events = []
        self.hook = hook

    def dispatch(self, event):
        self.events.append(event)
        if self.hook:
            self.hook(event)


class Case:
    """One observer + scratch paths; executes API calls under a watchdog and audits at the end."""

    def __init__(self, kind="inotify", led=None, tree_dirs=2, timeout=None, follow=False):
        self.kind = kind
        # follow: the recursive watch on p2 follows symbolic links and p2 holds links that resolve to p2 itself (p2/self -> . or
        # p2/s0/up -> ..): the kernel answers the root's own watch descriptor for those aliases
        self.follow = follow and kind == "inotify"
        self.timeout = timeout
        self.led = led
        self.base = tempfile.mkdtemp(prefix="wdv-api-")
        self.paths = {"p1": os.path.join(self.base, "p1"), "p2": os.path.join(self.base, "p2"), "missing": os.path.join(self.base, "nope"),
                      "file": os.path.join(self.base, "afile")}
        os.mkdir(self.paths["p1"])
        os.mkdir(self.paths["p2"])
        with open(self.paths["file"], "w"):
            pass
        d = self.paths["p2"]
        for i in range(tree_dirs):
            d = os.path.join(d, f"s{i}")
            os.mkdir(d)
        if self.follow:
            # one alias only: with two the number of paths the library's os.walk(followlinks=True) visits before ELOOP is exponential
            if follow == "up" and tree_dirs:
                os.symlink("..", os.path.join(self.paths["p2"], "s0", "up"))
            else:
                os.symlink(".", os.path.join(self.paths["p2"], "self"))
        self.threads0 = set(threading.enumerate())
        self.fds0 = monitors.fd_set()
        self.exc_mark = monitors.exc_mark()
        if led is not None:
            osledger.reset(led)
        if kind == "inotify":
            from watchdog.observers.inotify import InotifyObserver

            self.obs = InotifyObserver() if timeout is None else InotifyObserver(timeout=timeout)
        elif kind == "polling":
            from watchdog.observers.polling import PollingObserver

            self.obs = PollingObserver(timeout=0.02)
        else:
            from watchdog.observers.api import BaseObserver

            from wdverif import apirig

            self.plan = apirig.FaultPlan(())
            self.obs = BaseObserver(apirig.make_scripted_emitter(self.plan, []), timeout=0.02)
        self.watches: dict[str, object] = {}
        self.h = Handler()
        self.log: list[dict] = []
        self.started = False
        self.stopped = False
        self.joined = False
        self.hung = None
        self.stop_done_after_start = False  # a stop() has returned on an observer that had been started before

    def call(self, op, arg=None, timeout=12.0, from_thread=True):
        """Returns a log record; on a hang returns with rec['status']=='hung' and self.hung set."""
        obs = self.obs

        def fn():
            if op == "schedule":
                w = obs.schedule(self.h, self.paths[arg], recursive=(arg != "p1"), **({"follow_symlink": True} if self.follow and arg == "p2" else {}))
                self.watches[arg] = w
            elif op == "unschedule":
                obs.unschedule(self.watches.get(arg) or _dummy_watch(self.paths[arg]))
            elif op == "unschedule_all":
                obs.unschedule_all()
            elif op == "start":
                obs.start()
            elif op == "stop":
                obs.stop()
            elif op == "join":
                obs.join()
            elif op == "rm":
                shutil.rmtree(self.paths[arg], ignore_errors=True)
            elif op == "touch":
                with open(os.path.join(self.paths[arg], f"t{len(self.log)}"), "w"):
                    pass
            elif op == "mkdirs":
                # a directory-creation burst: the reader will want to add watches while it parses this batch
                os.makedirs(os.path.join(self.paths[arg], f"d{len(self.log)}", "x", "y"))
            elif op == "mvout":
                # a file leaves the watched directory: its IN_MOVED_FROM stays unmatched and is held back for the pairing delay
                src = os.path.join(self.paths[arg], f"m{len(self.log)}")
                with open(src, "w"):
                    pass
                os.rename(src, os.path.join(self.base, f"out{len(self.log)}"))
            elif op == "sleep":
                time.sleep(arg)

        status, val, th = monitors.call_with_watchdog(fn, timeout, name=f"call-{op}")
        rec = {"op": op, "arg": arg, "status": status}
        if status == "raised":
            rec["exc"] = f"{type(val).__name__}: {val}"
            rec["documented"] = isinstance(val, DOCUMENTED)
        if status == "ok":
            if op == "start":
                self.started = True
            elif op == "stop":
                self.stopped = True
                if self.started:
                    self.stop_done_after_start = True
            elif op == "join":
                self.joined = True
        if status == "hung":
            libs = [t for t in threading.enumerate() if is_library_thread(t) and t not in self.threads0]
            verdict, stacks = monitors.classify_hang([th] + libs, interval=0.5, samples=3)
            self.hung = {"call": op, "arg": arg, "verdict": verdict, "stacks": stacks}
            rec["hang"] = verdict
        self.log.append(rec)
        return rec

    def finish(self):
        """stop()+join() (if possible), then audit.  Returns dict of observations."""
        out = {"hung": self.hung, "threads_alive": [], "fds_open": {}, "ledger_violations": [], "proc_fd_delta": 0, "exceptions": [],
               "undocumented": [r for r in self.log if r["status"] == "raised" and not r.get("documented")], "threads_alive_at_return": []}
        out["after_completed_stop"] = None
        if self.hung is None and self.stop_done_after_start:
            # a stop() of a started observer has completed (and every other call has returned by now): whatever was
            # scheduled meanwhile or afterwards must not have left threads or descriptors behind - BEFORE any further stop()
            new = [t for t in threading.enumerate() if t not in self.threads0 and is_library_thread(t) and t is not self.obs]
            left = monitors.wait_threads_gone(new, grace=1.0)
            fds = {fd: r["kind"] for fd, r in self.led.open_fds().items()} if self.led is not None else {}
            out["after_completed_stop"] = {"threads": [monitors.thread_desc(t) for t in left], "fds": fds}
        if self.hung is None:
            # stop() may be called more than once: always issue a final one (an emitter started after an earlier stop() -
            # stop(); schedule(); start() - must be ended by it)
            self.call("stop")
            if self.hung is None and self.started and not self.joined:
                self.call("join")
            elif self.hung is None and not self.started:
                # never started: stop() has unscheduled everything; emitters were never started
                pass
        out["hung"] = self.hung
        if self.hung is None:
            new = [t for t in threading.enumerate() if t not in self.threads0 and is_library_thread(t)]
            # "afterwards every thread has exited": who is still running right after the final stop() (+ join()) returned?
            early = monitors.wait_threads_gone(new, grace=0.05)
            out["threads_alive_at_return"] = [{"thread": monitors.thread_desc(t), "stack": monitors.stack_of(t)} for t in early]
            alive = monitors.wait_threads_gone(new, grace=5.0)
            out["threads_alive"] = [{"thread": monitors.thread_desc(t), "stack": monitors.stack_of(t)} for t in alive]
            if self.led is not None:
                out["fds_open"] = {fd: r["kind"] for fd, r in self.led.open_fds().items()}
                out["ledger_violations"] = self.led.take_violations()
            extra = monitors.fd_set() - self.fds0
            out["proc_fd_delta"] = len(extra)
            out["proc_fd_extra"] = monitors.fd_describe(extra)
        for rec in monitors.exc_since(self.exc_mark):
            if rec["library"]:
                out["exceptions"].append({"thread": rec["thread_class"], "exc": f"{rec['exc_type']}: {rec['exc']}", "tb": rec["traceback"][-800:]})
        shutil.rmtree(self.base, ignore_errors=True)
        return out


def _dummy_watch(path):
    from watchdog.observers.api import ObservedWatch

    return ObservedWatch(path, recursive=False)


# ------------------------------------------------------------------------------------------------ hold sweeps
WATCHED = None


def instr_for_pipeline(seed=0):
    from watchdog.observers.api import BaseObserver, EventDispatcher, EventEmitter
    from watchdog.observers.inotify import InotifyEmitter
    from watchdog.observers.inotify_buffer import InotifyBuffer
    from watchdog.observers.inotify_c import Inotify
    from watchdog.observers.polling import PollingEmitter
    from watchdog.utils import BaseThread
    from watchdog.utils.delayed_queue import DelayedQueue

    ins = Instr(seed=seed)
    ins.watch(InotifyBuffer.run, InotifyBuffer.on_thread_stop, InotifyBuffer.close, Inotify.read_events, Inotify.close, Inotify._close_resources,
              DelayedQueue.get, DelayedQueue.close, DelayedQueue.put, InotifyEmitter.on_thread_stop, InotifyEmitter.queue_events,
              InotifyEmitter.on_thread_start, EventDispatcher.stop, EventDispatcher.run, EventEmitter.run, PollingEmitter.queue_events,
              BaseObserver._remove_emitter, BaseObserver._clear_emitters, BaseObserver.dispatch_events, BaseThread.stop)
    return ins


SWEEP_FUNCS = {
    "InotifyBuffer": ["InotifyBuffer.run", "Inotify.read_events", "Inotify.read_events.<locals>._recursive_simulate", "Inotify._close_resources", "InotifyBuffer.on_thread_stop"],
    "InotifyEmitter": ["InotifyEmitter.queue_events", "DelayedQueue.get", "EventEmitter.run", "InotifyEmitter.on_thread_stop"],
    "InotifyObserver": ["EventDispatcher.run", "BaseObserver.dispatch_events"],
    "PollingEmitter": ["PollingEmitter.queue_events", "EventEmitter.run"],
    "wdv-call-stop": ["Inotify.close", "DelayedQueue.close", "EventDispatcher.stop", "BaseObserver._clear_emitters", "InotifyBuffer.close", "InotifyEmitter.on_thread_stop", "BaseThread.stop"],
    "wdv-call-unschedule": ["Inotify.close", "DelayedQueue.close", "BaseObserver._remove_emitter", "InotifyBuffer.close", "InotifyEmitter.on_thread_stop"],
}


def discover(kind="inotify", seed=0):
    """Profile one start / event / unschedule / stop cycle; returns sorted [(role, qualname, line)]."""
    ins = instr_for_pipeline(seed)
    ins.discover = True
    with ins:
        for variant in range(2):
            c = Case(kind)
            c.call("schedule", "p2")
            c.call("start")
            c.call("touch", "p2")
            c.call("sleep", 0.05)
            if variant == 0:
                c.call("unschedule", "p2")
            c.call("stop")
            c.call("join")
            c.finish()
    pts = set()
    for role, qn, line in ins.points:
        for r, fns in SWEEP_FUNCS.items():
            if role == r and qn in fns:
                pts.add((role, qn, line))
    return sorted(pts, key=lambda t: (t[0], t[1], str(t[2])))


def hold_case(ins: Instr, led, kind, point, nth, partner, with_event):
    """The thread `role` is parked at (qualname, line) on its nth arrival while `partner` runs; then everything is shut down.
    partner in: stop | unschedule | rmroot | touch (let the reader proceed) ; for holds of the closing thread the partner is
    'touch' (an event moves the reader) or 'none'."""
    role, qn, line = point
    c = Case(kind, led)
    c.call("schedule", "p2")
    hold = None
    closer_role = role.startswith("wdv-call-")
    if not closer_role:
        hold = ins.add_hold(Hold(role, qn, line, nth=nth, timeout=6.0))
    c.call("start")
    if with_event == "mkdirs":
        c.call("mkdirs", "p2")
    elif with_event:
        c.call("touch", "p2")
    reached = False
    if closer_role:
        # hold the thread that performs stop()/unschedule() inside the closing code; the partner lets the reader run
        hold = ins.add_hold(Hold(role, qn, line, nth=nth, timeout=6.0))
        op = role[len("wdv-call-"):]
        t = threading.Thread(target=lambda: c.call(op, "p2" if op == "unschedule" else None), name="wdv-closer-driver", daemon=True)
        t.start()
        reached = hold.wait_reached(3.0)
        if reached:
            if partner == "touch":
                try:
                    with open(os.path.join(c.paths["p2"], "zz"), "w"):
                        pass
                except OSError:
                    pass
            elif partner == "rmroot":
                shutil.rmtree(c.paths["p2"], ignore_errors=True)
            elif partner == "schedule":
                # another thread schedules a watch while stop()/unschedule() is in the middle of its work
                ps = threading.Thread(target=lambda: c.call("schedule", "p1"), name="wdv-partner", daemon=True)
                ps.start()
                ps.join(0.25)
            time.sleep(0.1)
        hold.release()
        t.join(15)
        if partner == "schedule" and reached:
            ps.join(15)
    else:
        reached = hold.wait_reached(2.0)
        if reached:
            def run_partner():
                if partner == "stop":
                    c.call("stop")
                elif partner == "unschedule":
                    c.call("unschedule", "p2")
                elif partner == "rmroot":
                    shutil.rmtree(c.paths["p2"], ignore_errors=True)
                elif partner == "touch":
                    c.call("touch", "p2")
            pt = threading.Thread(target=run_partner, name="wdv-partner", daemon=True)
            pt.start()
            pt.join(0.25)
            hold.release()
            pt.join(15)
        else:
            hold.release()
    ins.clear_holds()
    out = c.finish()
    out["reached"] = reached
    out["log"] = c.log
    return out
