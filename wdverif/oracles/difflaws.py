"""Laws of C09, written from the statement, evaluated through the public accessors of
DirectorySnapshot (paths/inode/isdir/mtime/size) and the eight list properties of the diff.

Precondition (checked, else the pair is skipped by the caller): one path per inode in each snapshot.
Where the statement leaves a detail open both readings are accepted:
  * a moved-and-modified entry may be listed in `modified` under its old or its new path;
  * an identity-preserving entry whose kind changed may sit in the file or the dir list.
"""

from __future__ import annotations


def one_path_per_inode(snap) -> bool:
    seen = set()
    for p in snap.paths:
        i = snap.inode(p)
        if i in seen:
            return False
        seen.add(i)
    return True


def expected(ref, new):
    P0, P1 = ref.paths, new.paths
    inv0 = {ref.inode(p): p for p in P0}
    inv1 = {new.inode(p): p for p in P1}
    moved = {(inv0[i], inv1[i]) for i in inv0.keys() & inv1.keys() if inv0[i] != inv1[i]}
    deleted = {p for p in P0 if ref.inode(p) not in inv1}
    created = {p for p in P1 if new.inode(p) not in inv0}
    changed = {
        i
        for i in inv0.keys() & inv1.keys()
        if ref.mtime(inv0[i]) != new.mtime(inv1[i]) or ref.size(inv0[i]) != new.size(inv1[i])
    }
    return P0, P1, inv0, inv1, moved, deleted, created, changed


def check_diff(ref, new, diff) -> list[tuple[str, str]]:
    """Returns a list of (law, detail) for every law broken by `diff` = Diff(ref, new)."""
    out: list[tuple[str, str]] = []
    P0, P1, inv0, inv1, moved, deleted, created, changed = expected(ref, new)

    lists = {
        "files_created": diff.files_created,
        "files_deleted": diff.files_deleted,
        "files_modified": diff.files_modified,
        "files_moved": diff.files_moved,
        "dirs_created": diff.dirs_created,
        "dirs_deleted": diff.dirs_deleted,
        "dirs_modified": diff.dirs_modified,
        "dirs_moved": diff.dirs_moved,
    }
    for name, lst in lists.items():
        if len(lst) != len(set(lst)):
            out.append(("no-duplicates", f"{name} has duplicates: {lst!r}"))
    for kind in ("created", "deleted", "modified", "moved"):
        f, d = set(lists[f"files_{kind}"]), set(lists[f"dirs_{kind}"])
        if f & d:
            out.append(("file-dir-disjoint", f"{kind}: in both file and dir list: {sorted(f & d)!r}"))

    got_created = set(diff.files_created) | set(diff.dirs_created)
    got_deleted = set(diff.files_deleted) | set(diff.dirs_deleted)
    got_moved = set(diff.files_moved) | set(diff.dirs_moved)
    got_modified = set(diff.files_modified) | set(diff.dirs_modified)

    if got_moved != moved:
        out.append(("moved-iff-same-inode-other-path", f"moved={sorted(got_moved)!r} expected={sorted(moved)!r}"))
    if got_created != created:
        out.append(("created-iff-inode-new", f"created={sorted(got_created)!r} expected={sorted(created)!r}"))
    if got_deleted != deleted:
        out.append(("deleted-iff-inode-gone", f"deleted={sorted(got_deleted)!r} expected={sorted(deleted)!r}"))

    # accounting equation (stated separately in the property)
    srcs = {s for s, _ in got_moved}
    dsts = {d for _, d in got_moved}
    if ((P0 - got_deleted - srcs) | got_created | dsts) != P1:
        out.append(("accounting", f"(old - deleted - sources) + created + dests != new paths"))

    # modified: every changed identity-preserving entry under old or new path; nothing else
    for i in changed:
        if inv0[i] not in got_modified and inv1[i] not in got_modified:
            out.append(("modified-complete", f"entry {inv0[i]!r}->{inv1[i]!r} changed mtime/size but is not in modified"))
    just = set()
    for i in changed:
        just.add(inv0[i])
        just.add(inv1[i])
    for p in got_modified - just:
        out.append(("modified-sound", f"{p!r} reported modified but denotes no identity-preserving changed entry"))

    # kinds
    for p in diff.dirs_created:
        if p in P1 and not new.isdir(p):
            out.append(("kind", f"dirs_created has file {p!r}"))
    for p in diff.files_created:
        if p in P1 and new.isdir(p):
            out.append(("kind", f"files_created has dir {p!r}"))
    for p in diff.dirs_deleted:
        if p in P0 and not ref.isdir(p):
            out.append(("kind", f"dirs_deleted has file {p!r}"))
    for p in diff.files_deleted:
        if p in P0 and ref.isdir(p):
            out.append(("kind", f"files_deleted has dir {p!r}"))
    for lst, want_dir in ((diff.dirs_moved, True), (diff.files_moved, False)):
        for s, d in lst:
            if s in P0 and d in P1:
                k0, k1 = ref.isdir(s), new.isdir(d)
                if k0 == k1 and k0 != want_dir:
                    out.append(("kind", f"moved {(s, d)!r} in wrong list (isdir={k0})"))
    for lst, want_dir in ((diff.dirs_modified, True), (diff.files_modified, False)):
        for p in lst:
            kinds = set()
            for i in changed:
                if p in (inv0[i], inv1[i]):
                    kinds.add(ref.isdir(inv0[i]))
                    kinds.add(new.isdir(inv1[i]))
            if kinds and want_dir not in kinds:
                out.append(("kind", f"modified {p!r} in wrong list"))
    return out


def diff_sets(diff):
    return (
        set(diff.files_created) | set(diff.dirs_created),
        set(diff.files_deleted) | set(diff.dirs_deleted),
        set(diff.files_moved) | set(diff.dirs_moved),
        set(diff.files_modified) | set(diff.dirs_modified),
    )


def is_empty(diff) -> bool:
    return not any(
        (
            diff.files_created,
            diff.files_deleted,
            diff.files_modified,
            diff.files_moved,
            diff.dirs_created,
            diff.dirs_deleted,
            diff.dirs_modified,
            diff.dirs_moved,
        )
    )


def check_mirror(ref, new, d_fwd, d_bwd) -> list[tuple[str, str]]:
    out = []
    c1, x1, m1, _ = diff_sets(d_fwd)
    c2, x2, m2, _ = diff_sets(d_bwd)
    if c1 != x2 or x1 != c2:
        out.append(("mirror", f"created/deleted not swapped: fwd c={sorted(c1)} d={sorted(x1)}; bwd c={sorted(c2)} d={sorted(x2)}"))
    if {(b, a) for a, b in m1} != m2:
        out.append(("mirror", f"moves not reversed: fwd={sorted(m1)} bwd={sorted(m2)}"))
    if set(d_fwd.dirs_created) != set(d_bwd.dirs_deleted) or set(d_fwd.dirs_deleted) != set(d_bwd.dirs_created):
        out.append(("mirror", "dir created/deleted lists not swapped"))
    return out
